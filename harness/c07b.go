package main

import (
	"context"
	"fmt"
	accountmanagerhandler "github.com/attestantio/dirk/services/api/grpc/handlers/accountmanager"
	pb "github.com/wealdtech/eth2-signer-api/pb/v1"
	"os"
	"path/filepath"
	"strings"
	"time"

	"github.com/attestantio/dirk/core"
	"github.com/attestantio/dirk/services/checker"
)

// permServices: part (B) of C07.
func permServices(ctx context.Context, cf *commonFlags, rng *PRNG, idx map[string]string, stats map[string]int) ([]string, []string, int, error) {
	fx, err := NewFixture(ctx, 2, 3, false)
	if err != nil {
		return nil, nil, 0, err
	}
	wg := &patGen{rng: rng, words: []string{"Wallet 1", "Wallet 2", "Wallet ", "Wallet", "wallet 1"}}
	ag := &patGen{rng: rng, words: []string{"Account 0", "Account 1", "Account 2", "Account ", "account 1"}}
	nCfg := 8
	if cf.tier == "thorough" {
		nCfg = 80
	}
	var monFail, files []string
	total := 0
	var scases, worlds []string
	sid := 900000
	for ci := 0; ci < nCfg; ci++ {
		pc := genPermConfig(rng, wg, ag)
		// make sure something is allowed: one broad entry for client1 at the end
		if rng.Chance(70) {
			pc.Entries["client1"] = append(pc.Entries["client1"], permEntry{W: &Pat{Top: []*rnode{litSeq("Wallet 1")}}, A: &Pat{Empty: true}, Ops: []string{"~Sign beacon proposal", "All"}})
		}
		inst, err := NewInstance(ctx, fx, InstanceOpts{AdminIPs: []string{"10.0.0.1"}, Perms: pc.toDirk()})
		if err != nil {
			stats["svc.config.rejected"]++
			continue
		}
		realChecker, _ := newChecker(ctx, pc)
		run := &Runner{ctx: ctx, fx: fx, stats: stats, nextID: 100000 * (ci + 1)}
		epoch := uint64(3)
		for ai, a := range fx.Accounts {
			for _, client := range pc.Clients {
				for mode := 0; mode < 3; mode++ {
					ad := Addr{Name: a.Path()}
					target := a // the account that will sign: a key takes precedence over a name
					switch mode {
					case 1:
						ad = Addr{Key: a.Key, KeyID: a.ID, HasKey: true}
					case 2:
						// a permitted-looking name together with ANOTHER account's key
						target = fx.Accounts[(ai+1)%len(fx.Accounts)]
						ad = Addr{Name: a.Path(), Key: target.Key, KeyID: target.ID, HasKey: true}
					}
					epoch += 2
					ops := []*Op{
						{Kind: KAttest, Client: client, IP: "10.0.0.1", Addrs: []Addr{ad}, Atts: []AttData{{Dom: mkDomain(domAttester, 0), BBR: fill32(1), Src: &Checkpoint{epoch - 1, fill32(0)}, Tgt: &Checkpoint{epoch, fill32(1)}}}},
						{Kind: KPropose, Client: client, IP: "10.0.0.1", Addrs: []Addr{ad}, Props: []PropData{{Dom: mkDomain(domProposer, 0), Slot: epoch, Pidx: 1, Parent: fill32(0), State: fill32(1), Body: fill32(1)}}},
						{Kind: KSign, Client: client, IP: "10.0.0.1", Addrs: []Addr{ad}, Signs: []SignData{{Dom: mkDomain(domRandao, 0), Data: fill32(5)}}},
					}
					// the batch endpoints too (one entry each: the permission asked for must be the endpoint's own)
					ops = append(ops,
						&Op{Kind: KAttests, Client: client, IP: "10.0.0.1", Addrs: []Addr{ad}, Atts: []AttData{{Dom: mkDomain(domAttester, 0), BBR: fill32(2), Src: &Checkpoint{epoch, fill32(0)}, Tgt: &Checkpoint{epoch + 1, fill32(2)}}}},
						&Op{Kind: KMultisign, Client: client, IP: "10.0.0.1", Addrs: []Addr{ad}, Signs: []SignData{{Dom: mkDomain(domRandao, 1), Data: fill32(6)}}})
					actions := []string{"Sign beacon attestation", "Sign beacon proposal", "Sign", "Sign beacon attestation", "Sign"}
					for oi, op := range ops {
						rec, err := run.execStep(inst, ci, oi, op)
						if err != nil {
							return nil, nil, 0, err
						}
						permitted := realChecker.Check(ctx, &checker.Credentials{Client: client}, target.Path(), actions[oi])
						if !permitted {
							if rec.Obs[0].State != core.ResultDenied || rec.Obs[0].SigLen > 0 {
								monFail = append(monFail, fmt.Sprintf("permissions {%s} do not allow %q on %s for %s, yet the signer answered %s (signature %v) :: %s", pc.text(), actions[oi], target.Path(), client, rec.Obs[0].State, rec.Obs[0].SigLen > 0, describeStep(rec)))
							}
							if fmtStore(rec.Pre) != fmtStore(rec.Post) {
								monFail = append(monFail, fmt.Sprintf("a request refused for lack of permission changed the protection store :: %s", describeStep(rec)))
							}
						}
					}
				}
			}
		}
		inst.Close(ctx)
		cfgOverride = fmt.Sprintf("mkcfgT %s %s %s %s %s", coqBool(true), coqStrList([]string{"10.0.0.1"}), coqAccounts(fx), coqBool(cf.g63), pc.coq())
		extraImports = "Corr.CheckChecker"
		fs, err := writeInstCases(cf.out, fmt.Sprintf("C07_svc%d", ci), "check_exact", true, []string{"10.0.0.1"}, fx, run.steps, 2000)
		cfgOverride, extraImports = "", ""
		if err != nil {
			return nil, nil, 0, err
		}
		files = append(files, fs...)
		for i := range run.steps {
			st := &run.steps[i]
			idx[fmt.Sprint(st.ID)] = fmt.Sprintf("permissions {%s} :: %s", pc.text(), describeStep(st))
		}
		total += len(run.steps)

		// account manager / wallet manager on a node sharing the wallets
		node, err := NewNode(ctx, NodeOpts{ID: 1, Stores: fx.Stores, Perms: pc.toDirk(), PeersMap: map[uint64]string{1: "signer-test01:10001"}})
		if err != nil {
			return nil, nil, 0, err
		}
		world := fmt.Sprintf("w%d", ci)
		worlds = append(worlds, fmt.Sprintf("Definition w%d : world := WD %s %s %s %s [].", ci, coqBool(cf.g63), pc.coq(), coqStrList([]string{"Wallet 1", "Wallet 2"}), coqAccounts(fx)))
		for _, client := range append(append([]string{}, pc.Clients...), "nobody") {
			creds := &checker.Credentials{Client: client, IP: "10.0.0.1"}
			for _, a := range fx.Accounts {
				names := []string{a.Path()}
				if rng.Chance(20) {
					names = append(names, "Wallet 9/"+a.Name, a.Wallet+"/Nobody", "")
				}
				for _, name := range names {
					r1, _ := node.AcctMgr.Lock(ctx, creds, name)
					sid++
					scases = append(scases, fmt.Sprintf(" SCs %s %s (SAcctLock %s %s) %s", coqN(sid), world, coqStr(client), coqStr(name), coqCres(r1)))
					idx[fmt.Sprint(sid)] = fmt.Sprintf("permissions {%s} account Lock(%q) by %s = %s", pc.text(), name, client, r1)
					perm := realChecker.Check(ctx, creds, name, "Lock account")
					if r1 == core.ResultSucceeded && !perm {
						monFail = append(monFail, fmt.Sprintf("permissions {%s}: %s locked account %q without the Lock account permission", pc.text(), client, name))
					}
					// always the configured passphrase: the wallet library keeps a decrypted key across Lock and
					// then accepts any passphrase (observation O5 in DESIGN.md), which is outside the model
					pass := "pass"
					// the account's own Unlock accepts any passphrase when it is already unlocked
					passOK := pass == "pass"
					if _, acc, err := node.Fetcher.FetchAccount(ctx, name); err == nil {
						if l, ok := acc.(interface {
							IsUnlocked(context.Context) (bool, error)
						}); ok {
							if u, _ := l.IsUnlocked(ctx); u {
								passOK = true
							}
						}
					}
					r2, _ := node.AcctMgr.Unlock(ctx, creds, name, []byte(pass))
					sid++
					scases = append(scases, fmt.Sprintf(" SCs %s %s (SAcctUnlock %s %s %s) %s", coqN(sid), world, coqStr(client), coqStr(name), coqBool(passOK), coqCres(r2)))
					idx[fmt.Sprint(sid)] = fmt.Sprintf("permissions {%s} account Unlock(%q, %q) by %s = %s", pc.text(), name, pass, client, r2)
					if r2 == core.ResultSucceeded && !realChecker.Check(ctx, creds, name, "Unlock account") {
						monFail = append(monFail, fmt.Sprintf("permissions {%s}: %s unlocked account %q without the Unlock account permission", pc.text(), client, name))
					}
				}
			}
			for _, w := range []string{"Wallet 1", "Wallet 2", "Wallet 9", "", "Wallet 1/Account 0"} {
				r1, _ := node.WalMgr.Lock(ctx, creds, w)
				sid++
				scases = append(scases, fmt.Sprintf(" SCs %s %s (SWalletLock %s %s) %s", coqN(sid), world, coqStr(client), coqStr(w), coqCres(r1)))
				idx[fmt.Sprint(sid)] = fmt.Sprintf("permissions {%s} wallet Lock(%q) by %s = %s", pc.text(), w, client, r1)
				wn := strings.SplitN(w, "/", 2)[0]
				if r1 == core.ResultSucceeded && !realChecker.Check(ctx, creds, wn, "Lock wallet") {
					monFail = append(monFail, fmt.Sprintf("permissions {%s}: %s locked wallet %q without the Lock wallet permission", pc.text(), client, w))
				}
				r2, _ := node.WalMgr.Unlock(ctx, creds, w, []byte("pass"))
				sid++
				scases = append(scases, fmt.Sprintf(" SCs %s %s (SWalletUnlock %s %s true) %s", coqN(sid), world, coqStr(client), coqStr(w), coqCres(r2)))
				idx[fmt.Sprint(sid)] = fmt.Sprintf("permissions {%s} wallet Unlock(%q) by %s = %s", pc.text(), w, client, r2)
				if r2 == core.ResultSucceeded && !realChecker.Check(ctx, creds, wn, "Unlock wallet") {
					monFail = append(monFail, fmt.Sprintf("permissions {%s}: %s unlocked wallet %q without the Unlock wallet permission", pc.text(), client, w))
				}
			}
			// creation: refused without permission (no account appears)
			for gi, path := range []string{"Wallet 1/New A", "Wallet 2/New B"} {
				path = fmt.Sprintf("%s %d-%d", path, ci, len(scases))
				parts, thr := uint32(1), uint32(1)
				switch rng.Intn(6) {
				case 0:
					parts = 0
				case 1:
					thr = 2
				}
				before, _ := node.Fetcher.FetchAccounts(ctx, strings.SplitN(path, "/", 2)[0])
				r, _, _, _ := node.AcctMgr.Generate(ctx, creds, path, []byte("pass"), thr, parts)
				after, _ := node.Fetcher.FetchAccounts(ctx, strings.SplitN(path, "/", 2)[0])
				perm := realChecker.Check(ctx, creds, path, "Create account")
				if !perm && (r == core.ResultSucceeded || len(after) != len(before)) {
					monFail = append(monFail, fmt.Sprintf("permissions {%s}: %s created %q without the Create account permission (result %s)", pc.text(), client, path, r))
				}
				outcome := "None"
				if r == core.ResultSucceeded {
					outcome = fmt.Sprintf("(Some (AC %s %s 0%%N true true))", coqStr(strings.SplitN(path, "/", 2)[0]), coqStr(strings.SplitN(path, "/", 2)[1]))
				}
				sid++
				scases = append(scases, fmt.Sprintf(" SCs %s %s (SGenerate %s %s %d %d %s) %s", coqN(sid), world, coqStr(client), coqStr(path), parts, thr, outcome, coqCres(r)))
				idx[fmt.Sprint(sid)] = fmt.Sprintf("permissions {%s} Generate(%q, threshold %d, participants %d) by %s = %s", pc.text(), path, thr, parts, client, r)
				_ = gi
			}
		}
		node.Close(ctx)
	}
	// creation of a DISTRIBUTED account (several participants: the generation runs on every instance of a
	// cluster) is an operation like any other: without the Create account permission nothing is created anywhere
	{
		ids := []uint64{1, 2, 3}
		perms := map[string][]*checker.Permissions{
			"creator": {{Path: "Wallet 3", Operations: []string{"Create account"}}, {Path: "Wallet 1", Operations: []string{"Create account"}}},
			"signer":  {{Path: "Wallet 3", Operations: []string{"Sign", "Access account"}}},
			"denied":  {{Path: "Wallet 3", Operations: []string{"None"}}},
			"anti":    {{Path: "Wallet 3", Operations: []string{"~Create account", "All"}}},
			"later":   {{Path: "Wallet 3/Deny.*", Operations: []string{"None"}}, {Path: "Wallet 3", Operations: []string{"All"}}},
		}
		cl, err := NewClusterPerms(ctx, ids, 5*time.Second, perms)
		if err != nil {
			return nil, nil, 0, err
		}
		count := func() []int {
			var out []int
			for _, id := range ids {
				accs, _ := cl.Nodes[id].Fetcher.FetchAccounts(ctx, "Wallet 3")
				plain, _ := cl.Nodes[id].Fetcher.FetchAccounts(ctx, "Wallet 1")
				out = append(out, len(accs)+len(plain))
			}
			return out
		}
		type attempt struct {
			client, name string
			allowed      bool
		}
		for ai, at := range []attempt{{"signer", "Wallet 3/dist a", false}, {"denied", "Wallet 3/dist b", false}, {"anti", "Wallet 3/dist c", false}, {"nobody", "Wallet 3/dist d", false}, {"", "Wallet 3/dist e", false},
			{"later", "Wallet 3/Deny me", false}, {"later", "Wallet 3/dist f", true}, {"creator", "Wallet 3/dist g", true}, {"signer", "Wallet 3/dist h", false},
			// one participant: a plain account of the plain wallet, by the same route
			{"signer", "Wallet 1/single a", false}, {"nobody", "Wallet 1/single b", false}, {"creator", "Wallet 1/single c", true}, {"later", "Wallet 1/single d", false}} {
			parts, thr := uint32(3), uint32(2)
			if strings.HasPrefix(at.name, "Wallet 1/") {
				parts, thr = 1, 1
			}
			before := count()
			// through the gRPC handler object, as a client's request arrives (it hands the request to the process
			// service itself, not to the account manager service)
			nd := cl.Nodes[ids[ai%len(ids)]]
			ah, herr := accountmanagerhandler.New(ctx, accountmanagerhandler.WithAccountManager(nd.AcctMgr), accountmanagerhandler.WithProcess(nd.Process))
			if herr != nil {
				return nil, nil, 0, herr
			}
			r := core.ResultFailed
			res, gerr := ah.Generate(ctxWithClient(ctx, at.client, "10.0.0.1"), &pb.GenerateRequest{Account: at.name, Passphrase: []byte("pass"), SigningThreshold: thr, Participants: parts})
			if gerr == nil && res.GetState() == pb.ResponseState_SUCCEEDED {
				r = core.ResultSucceeded
			} else if gerr == nil {
				gerr = fmt.Errorf("%s %s", res.GetState(), res.GetMessage())
			}
			after := count()
			grew := false
			for i := range before {
				grew = grew || after[i] != before[i]
			}
			stats["svc.manager.distributed-creations"]++
			switch {
			case !at.allowed && (r == core.ResultSucceeded || grew):
				monFail = append(monFail, fmt.Sprintf("cluster %v, permissions of %q do not include Create account for it: Generate(%q, threshold %d, participants %d) = %s, accounts per instance before %v, after %v",
					ids, at.client, at.name, thr, parts, r, before, after))
			case at.allowed && r != core.ResultSucceeded:
				monFail = append(monFail, fmt.Sprintf("cluster %v: %q may create this account, but Generate(%q, threshold %d, participants %d) = %s (%v)", ids, at.client, at.name, thr, parts, r, gerr))
			}
		}
		cl.Close(ctx)
	}
	// the fixture's store now holds the created accounts; it is not reused
	var b strings.Builder
	b.WriteString("From DV Require Import Corr.CheckChecker.\nLocal Open Scope string_scope.\n")
	b.WriteString(strings.Join(worlds, "\n") + "\n")
	fmt.Fprintf(&b, "Definition cases : list scase := [\n%s].\n", strings.Join(scases, ";\n"))
	b.WriteString("Definition M := Eval vm_compute in services_mismatches cases.\nPrint M.\n")
	if err := os.WriteFile(filepath.Join(cf.out, "cases_C07_mgr.v"), []byte(b.String()), 0o644); err != nil {
		return nil, nil, 0, err
	}
	files = append(files, "cases_C07_mgr.v")
	stats["svc.manager.cases"] = len(scases)
	return monFail, files, total + len(scases), nil
}
