(* The lock protocol of Conc.v with the per-key mutexes replaced by a table of shared slots: the mutex
   taken for key k is the one of slot k (slot = identity: Conc.fire, ConcSlotsProofs.fire_s_id).
   For the refutation witness of C15: two distinct keys of one request that share a slot. *)
From DV Require Export Model.Conc.

Section S.
Variable val req verdict : Type.
Variable keys : req -> list key.
Variable decide : req -> list (key * val) -> verdict * list (key * val).
Variable slot : key -> key.

Definition fire_s (w : world val req verdict) (t : nat) : option (world val req verdict) :=
  match nth_error (w_threads w) t with
  | None => None
  | Some th =>
    let r := t_req th in
    let put ph := set_thread (w_threads w) t {| t_req := r; t_ph := ph |} in
    match t_ph th with
    | PStart =>
        match w_mlock w with
        | None => Some {| w_store := w_store w; w_mlock := Some t; w_klock := w_klock w;
                          w_threads := put (PLocking (keys r) []); w_log := w_log w |}
        | Some _ => None end
    | PLocking (k :: todo) got =>
        match w_klock w (slot k) with
        | None => Some {| w_store := w_store w; w_mlock := w_mlock w; w_klock := kset (w_klock w) (slot k) (Some t);
                          w_threads := put (PLocking todo (k :: got)); w_log := w_log w |}
        | Some _ => None end
    | PLocking [] got =>
        Some {| w_store := w_store w; w_mlock := None; w_klock := w_klock w;
                w_threads := put (PLocked got (keys r) []); w_log := w_log w |}
    | PLocked got (k :: tf) reads =>
        Some {| w_store := w_store w; w_mlock := w_mlock w; w_klock := w_klock w;
                w_threads := put (PLocked got tf (reads ++ [(k, w_store w k)])); w_log := w_log w |}
    | PLocked got [] reads =>
        let d := decide r reads in
        Some {| w_store := apply (w_store w) (snd d); w_mlock := w_mlock w; w_klock := w_klock w;
                w_threads := put (PCommitted got (fst d)); w_log := (t, r, fst d) :: w_log w |}
    | PCommitted (k :: rest) out =>
        Some {| w_store := w_store w; w_mlock := w_mlock w; w_klock := kset (w_klock w) (slot k) None;
                w_threads := put (PCommitted rest out); w_log := w_log w |}
    | PCommitted [] out =>
        Some {| w_store := w_store w; w_mlock := w_mlock w; w_klock := w_klock w;
                w_threads := put (PDone out); w_log := w_log w |}
    | PDone _ => None
    end
  end.

Fixpoint run_sched_s (w : world val req verdict) (sched : list nat) : option (world val req verdict) :=
  match sched with
  | [] => Some w
  | t :: r => match fire_s w t with Some w' => run_sched_s w' r | None => None end
  end.

Definition stuck_s (w : world val req verdict) : bool :=
  forallb (fun t => match fire_s w t with None => true | Some _ => false end) (seq 0 (List.length (w_threads w))).
End S.
Arguments fire_s {val req verdict} keys decide slot w t.
Arguments run_sched_s {val req verdict} keys decide slot w sched.
Arguments stuck_s {val req verdict} keys decide slot w.
