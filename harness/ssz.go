package main

import (
	"crypto/sha256"
	"encoding/binary"

	"github.com/attestantio/dirk/core"
	e2types "github.com/wealdtech/go-eth2-types/v2"
)

// An independent, few-line SSZ for the three fixed containers Dirk signs (crypto/sha256 only;
// independent of fastssz and of Dirk's code).  nil = no root (malformed lengths).

func h2(a, b []byte) []byte {
	h := sha256.New()
	h.Write(a)
	h.Write(b)
	return h.Sum(nil)
}

func chunkU64(x uint64) []byte {
	c := make([]byte, 32)
	binary.LittleEndian.PutUint64(c, x)
	return c
}

// Go's copy into a [32]byte: truncate or zero-pad.
func fix32(b []byte) []byte {
	c := make([]byte, 32)
	copy(c, b)
	return c
}

func merkle5(c0, c1, c2, c3, c4 []byte) []byte {
	z0 := make([]byte, 32)
	z1 := h2(z0, z0)
	return h2(h2(h2(c0, c1), h2(c2, c3)), h2(h2(c4, z0), z1))
}

func signingRoot(dataRoot, dom []byte) []byte {
	if len(dataRoot) != 32 || len(dom) != 32 {
		return nil
	}
	return h2(dataRoot, dom)
}

func attRoot(d AttData) []byte {
	if d.Nil || d.Src == nil || d.Tgt == nil {
		return nil
	}
	src := h2(chunkU64(d.Src.Epoch), fix32(d.Src.Root))
	tgt := h2(chunkU64(d.Tgt.Epoch), fix32(d.Tgt.Root))
	return signingRoot(merkle5(chunkU64(d.Slot), chunkU64(d.Idx), fix32(d.BBR), src, tgt), d.Dom)
}

func propRoot(d PropData) []byte {
	if d.Nil {
		return nil
	}
	return signingRoot(merkle5(chunkU64(d.Slot), chunkU64(d.Pidx), fix32(d.Parent), fix32(d.State), fix32(d.Body)), d.Dom)
}

func signRoot(d SignData) []byte {
	if d.Nil {
		return nil
	}
	return signingRoot(d.Data, d.Dom)
}

func verifySig(sig, root, pubKey []byte) bool {
	if len(sig) == 0 || len(root) != 32 || len(pubKey) != 48 {
		return false
	}
	s, err := e2types.BLSSignatureFromBytes(sig)
	if err != nil {
		return false
	}
	pk, err := e2types.BLSPublicKeyFromBytes(pubKey)
	if err != nil {
		return false
	}
	return s.Verify(root, pk)
}

func (inst *Instance) observe(ad Addr, res core.Result, sig []byte, root []byte) Obs {
	o := Obs{State: res, SigLen: len(sig), Root: root}
	if len(sig) > 0 {
		if a := inst.resolveInfo(ad); a != nil {
			o.SigValid = verifySig(sig, root, a.Key)
		}
	}
	return o
}
