(* C17 - key-generation sessions follow a strict one-per-account lifecycle. *)
From DV Require Import Model.Session Proofs.SessionProofs Proofs.SessionCoop.

(* For every sequence of prepare / execute / contribute / commit / abort / clock-advance events over any
   account names, from any table with distinct names: *)

(* (a) at most one session per account name *)
Theorem C17_one_session_per_name :
  forall h p, keys_unique (p_sessions p) -> keys_unique (p_sessions (fst (srun p h))).
Proof. exact one_session_per_name. Qed.
Print Assumptions C17_one_session_per_name.

(* (b) preparing while a session is active is refused and leaves everything as it was *)
Theorem C17_prepare_while_active :
  forall p a thr parts, active p a = true -> sstep_ev p (SPrepare a thr parts) = (EInProgress, p).
Proof. exact prepare_while_active_refused. Qed.

(* (c) execute, contribute, commit and abort are refused unless a session is active; no account is created
   and none becomes active *)
Theorem C17_refused_without_session :
  forall p a, active p a = false ->
    (forall sw ok, fst (sstep_ev p (SExecute a sw ok)) = ENotInProgress) /\
    (forall sender valid, fst (sstep_ev p (SContribute a sender valid)) = ENotFound) /\
    (forall ok, fst (sstep_ev p (SCommit a ok)) = ENotInProgress) /\
    fst (sstep_ev p (SAbort a)) = ENotInProgress /\
    (forall e, (exists sw ok, e = SExecute a sw ok) \/ (exists s v, e = SContribute a s v) \/ (exists ok, e = SCommit a ok) \/ e = SAbort a ->
       p_accounts (snd (sstep_ev p e)) = p_accounts p /\ active (snd (sstep_ev p e)) a = false).
Proof. exact refused_without_session. Qed.
Print Assumptions C17_refused_without_session.

(* (d) commit succeeds only once every listed participant has contributed - stated for contributions
   coming from listed, distinct participants (the property's cooperating peers): the code compares
   COUNTS (observation O2 in DESIGN.md) *)
Theorem C17_commit_needs_everyone :
  forall p a ok s, get_generation p a = (Some s, p) -> contributions_from_listed s ->
    fst (sstep_ev p (SCommit a ok)) = EOk ->
    (forall i, In i (s_participants s) -> In i (s_contributed s)) /\ ok = true.
Proof. exact commit_needs_everyone. Qed.

(* (d') ... and that hypothesis holds in every state reachable with cooperating peers: from an empty table,
   after ANY history in which every prepare lists distinct participants including this instance and every
   contribution comes from a listed participant (executes, commits, aborts, repeats, expiries and
   out-of-order messages are unrestricted), a commit that succeeds found every listed participant. *)
Theorem C17_commit_needs_everyone_reachable :
  forall id timeout h a ok,
    let p0 := {| p_id := id; p_timeout := timeout; p_now := 0; p_sessions := []; p_accounts := [] |} in
    coop_hist p0 h ->
    fst (sstep_ev (fst (srun p0 h)) (SCommit a ok)) = EOk ->
    exists s, fst (get_generation (fst (srun p0 h)) a) = Some s /\
              (forall i, In i (s_participants s) -> In i (s_contributed s)) /\ ok = true.
Proof. exact commit_needs_everyone_reachable. Qed.
Print Assumptions C17_commit_needs_everyone_reachable.

(* (e) after a successful commit, an abort or the timeout the session is gone ... *)
Theorem C17_gone_afterwards :
  (forall p a,
     (forall ok, fst (sstep_ev p (SCommit a ok)) = EOk -> active (snd (sstep_ev p (SCommit a ok))) a = false /\
                                                         In a (p_accounts (snd (sstep_ev p (SCommit a ok))))) /\
     (fst (sstep_ev p (SAbort a)) = EOk -> active (snd (sstep_ev p (SAbort a))) a = false)) /\
  (forall p a s dt, sfind a (p_sessions p) = Some s -> p_timeout p < p_now p + dt - s_started s ->
     active (snd (sstep_ev p (SAdvance dt))) a = false).
Proof. split; [exact gone_after_commit_or_abort|exact expired_is_gone]. Qed.

(* ... further messages for it are refused (c), and a new generation for that name may start *)
Theorem C17_new_generation_may_start :
  forall p a thr parts, active p a = false -> 0 < thr ->
    fst (sstep_ev p (SPrepare a thr parts)) = EOk /\ active (snd (sstep_ev p (SPrepare a thr parts))) a = true.
Proof. exact new_prepare_after_gone. Qed.
Print Assumptions C17_new_generation_may_start.

(* the count-based commit accepts a contribution from an unlisted sender in place of a listed one (O2) *)
Lemma C17_unrestricted_refuted :
  let p := {| p_id := 1; p_timeout := 100; p_now := 0; p_sessions := []; p_accounts := [] |} in
  snd (srun p [SPrepare "a" 2 [1; 2; 3]%N; SContribute "a" 2%N true; SContribute "a" 9%N true; SCommit "a" true])
  = [EOk; EOk; EOk; EOk].
Proof. vm_compute. reflexivity. Qed.
