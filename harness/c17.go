package main

import (
	"context"
	"errors"
	"fmt"
	"os"
	"path/filepath"
	"sort"
	"strings"
	"sync"
	"time"

	"github.com/attestantio/dirk/core"
	"github.com/attestantio/dirk/services/checker"
	standardprocess "github.com/attestantio/dirk/services/process/standard"
	"github.com/herumi/bls-eth-go-binary/bls"
	pb "github.com/wealdtech/eth2-signer-api/pb/v1"
	distributed "github.com/wealdtech/go-eth2-wallet-distributed"
	keystorev4 "github.com/wealdtech/go-eth2-wallet-encryptor-keystorev4"
	e2wtypes "github.com/wealdtech/go-eth2-wallet-types/v2"
)

// Session-lifecycle driver (C17 at the process-service level, C16 at the receiver-handler level).
// One real instance N runs inside a cluster of cooperating real peers; events are applied to N
// and the reply class, the generation table and the wallet contents are observed after each.

const (
	sessTimeout = 1100 * time.Millisecond
	sessMargin  = 250 * time.Millisecond
)

type sessEvent struct {
	Kind   string // prepare execute contribute commit abort advance
	Acct   string
	Thr    uint32
	Parts  []uint64
	Sender uint64 // process level: the sender identifier handed to the service
	Caller string // handler level: authenticated name ("" = none)
	Fault  string // contribute: "", badshare, otherid, badvvec; execute: "" or "drop<k>"
	Self   bool   // handler level, prepare by a stranger: the caller lists ITSELF (own name, identifier 77) as a participant
	Sleep  time.Duration
}

type sessObs struct {
	Refused  bool // handler level: "unknown sender"
	Class    string
	Sessions []standardprocess.VerifSession
	Accounts []string
}

type sessRunner struct {
	ctx      context.Context
	c        *Cluster
	n        *Node
	handler  bool
	t0       time.Time
	lastMs   int64
	lines    []string // Coq events
	descr    []string
	monFail  []string
	stats    map[string]int
	statsMu  *sync.Mutex
	execLog0 int
}

func newTimedCluster(ctx context.Context, ids []uint64, self uint64, selfTimeout time.Duration) (*Cluster, error) {
	c := &Cluster{Nodes: map[uint64]*Node{}}
	peersMap := map[uint64]string{}
	for _, id := range ids {
		peersMap[id] = fmt.Sprintf("%s:%d", nodeName(id), 10000+id%50000)
	}
	perms := map[string][]*checker.Permissions{"client1": {{Path: "Wallet 1", Operations: []string{"All"}}, {Path: "Wallet 3", Operations: []string{"All"}}}}
	for _, id := range ids {
		to := time.Hour
		if id == self {
			to = selfTimeout
		}
		n, err := NewNode(ctx, NodeOpts{ID: id, NDWallets: []string{"Wallet 1"}, DistWallets: []string{"Wallet 3"}, Perms: perms,
			PeersMap: peersMap, Sender: &clusterSender{c: c, from: id}, GenTimeout: to})
		if err != nil {
			return nil, err
		}
		c.Nodes[id] = n
	}
	return c, nil
}

func nodeAccounts(ctx context.Context, n *Node, wallet string) []string {
	var out []string
	w, err := distributed.OpenWallet(ctx, wallet, n.Stores[0], keystorev4.New())
	if err != nil {
		return nil
	}
	for a := range w.Accounts(ctx) {
		out = append(out, wallet+"/"+a.Name())
	}
	sort.Strings(out)
	return out
}

func classify(err error) string {
	switch {
	case err == nil:
		return "EOk"
	case errors.Is(err, standardprocess.ErrInProgress):
		return "EInProgress"
	case errors.Is(err, standardprocess.ErrNotInProgress):
		return "ENotInProgress"
	case errors.Is(err, standardprocess.ErrNotFound):
		return "ENotFound"
	case errors.Is(err, standardprocess.ErrNotCreated), strings.HasPrefix(err.Error(), standardprocess.ErrNotCreated.Error()):
		return "ENotCreated"
	}
	return "EOther"
}

// harnessContribution deals a fresh polynomial of the given threshold and returns the share for id
// and the verification vector.
func harnessContribution(thr int, id uint64, fault string) (bls.SecretKey, []bls.PublicKey) {
	if thr < 1 {
		thr = 1
	}
	switch fault {
	case "longvvec": // a consistent polynomial of one degree more
		thr++
	case "shortvvec":
		if thr > 1 {
			thr--
		} else {
			thr = 2
		}
	}
	sks := make([]bls.SecretKey, thr)
	vv := make([]bls.PublicKey, thr)
	for i := range sks {
		sks[i].SetByCSPRNG()
		vv[i] = *sks[i].GetPublicKey()
	}
	var share bls.SecretKey
	target := id
	if fault == "otherid" {
		target = id + 1
	}
	_ = share.Set(sks, blsID(target))
	switch fault {
	case "badshare":
		share.SetByCSPRNG()
	case "badvvec":
		var x bls.SecretKey
		x.SetByCSPRNG()
		vv[0] = *x.GetPublicKey()
	}
	return share, vv
}

func blsID(id uint64) *bls.ID {
	var x bls.ID
	b := make([]byte, 8)
	for i := 0; i < 8; i++ {
		b[i] = byte(id >> (8 * i))
	}
	_ = x.SetLittleEndian(b)
	return &x
}

func verifyShare(id uint64, share *bls.SecretKey, vvec []bls.PublicKey) bool {
	var pk bls.PublicKey
	if err := pk.Set(vvec, blsID(id)); err != nil {
		return false
	}
	return share.GetPublicKey().IsEqual(&pk)
}

func (r *sessRunner) find(ss []standardprocess.VerifSession, acct string) *standardprocess.VerifSession {
	for i := range ss {
		if ss[i].Account == acct {
			return &ss[i]
		}
	}
	return nil
}

func (r *sessRunner) stat(k string) {
	r.statsMu.Lock()
	r.stats[k]++
	r.statsMu.Unlock()
}

func coqNs(l []uint64) string {
	it := make([]string, len(l))
	for i, x := range l {
		it[i] = fmt.Sprintf("%d", x)
	}
	return "[" + strings.Join(it, "; ") + "]%N"
}

func (r *sessRunner) coqObs(o *sessObs) string {
	var ss []string
	for _, s := range o.Sessions {
		ss = append(ss, fmt.Sprintf("(%s, (%d%%nat, %s, %s))", coqStr(s.Account), s.Threshold, coqNs(s.Participants), coqNs(s.Contributed)))
	}
	e := "(Some " + o.Class + ")"
	if o.Refused {
		e = "None"
	}
	return fmt.Sprintf("(OB %s %s %s)", e, coqList(ss), coqStrList(o.Accounts))
}

// step applies one event to N.
func (r *sessRunner) step(ev *sessEvent, created map[string]bool) {
	if ev.Kind == "advance" {
		time.Sleep(ev.Sleep)
		r.stat("event.advance")
		return
	}
	// keep clear of the instant at which the addressed session expires
	pre := r.n.Process.VerifSessions()
	if s := r.find(pre, ev.Acct); s != nil {
		el := time.Since(s.Started)
		if el > sessTimeout-sessMargin && el < sessTimeout+sessMargin {
			time.Sleep(sessTimeout + sessMargin - el)
		}
	}
	preAccts := nodeAccounts(r.ctx, r.n, "Wallet 3")
	now := time.Since(r.t0).Milliseconds()
	if d := now - r.lastMs; d > 0 {
		r.lines = append(r.lines, fmt.Sprintf("(HAdvance %d, None)", d))
	}
	r.lastMs = now
	start := time.Now()
	active := false
	var preS *standardprocess.VerifSession
	if s := r.find(pre, ev.Acct); s != nil && start.Sub(s.Started) < sessTimeout {
		active, preS = true, s
	}

	senderID := ev.Sender
	callerIsPeer := true
	if r.handler {
		senderID = 0
		for id, p := range r.n.Peers.All() {
			if p.Name == ev.Caller {
				senderID = id
			}
		}
		callerIsPeer = senderID != 0
	}
	hctx := ctxWithClient(r.ctx, ev.Caller, "10.0.0.9")

	var err error
	var msg, extra string
	r.c.mu.Lock()
	logStart := len(r.c.Log)
	r.c.mu.Unlock()
	panicked := ""
	noteRequest("key-generation message (handler level: %v) %s %q caller=%q sender=%d threshold=%d participants=%v fault=%q, after %d earlier messages of this history",
		r.handler, ev.Kind, ev.Acct, ev.Caller, ev.Sender, ev.Thr, ev.Parts, ev.Fault, len(r.lines))
	defer requestDone()
	func() {
		defer func() {
			if x := recover(); x != nil {
				panicked = fmt.Sprint(x)
				err = fmt.Errorf("panic: %v", x)
				r.c.mu.Lock()
				r.c.Tamper = nil
				r.c.mu.Unlock()
			}
		}()
		switch ev.Kind {
		case "prepare":
			eps := make([]*core.Endpoint, len(ev.Parts))
			pbeps := make([]*pb.Endpoint, len(ev.Parts))
			for i, id := range ev.Parts {
				eps[i] = &core.Endpoint{ID: id, Name: nodeName(id), Port: uint32(10000 + id%50000)}
				pbeps[i] = &pb.Endpoint{Id: id, Name: nodeName(id), Port: uint32(10000 + id%50000)}
			}
			if r.handler {
				if ev.Self {
					pbeps = append(pbeps, &pb.Endpoint{Id: 77, Name: ev.Caller, Port: 10077})
				}
				_, err = r.n.Receiver.Prepare(hctx, &pb.PrepareRequest{Account: ev.Acct, Passphrase: []byte("pass"), Threshold: ev.Thr, Participants: pbeps})
			} else {
				err = r.n.Process.OnPrepare(r.ctx, senderID, ev.Acct, []byte("pass"), ev.Thr, eps)
			}
			// cooperating peers prepare too (after dropping whatever they had for the name)
			if ev.Thr > 0 {
				for _, id := range ev.Parts {
					if p := r.c.Nodes[id]; p != nil && id != r.n.ID {
						_ = p.Process.OnAbort(r.ctx, r.n.ID, ev.Acct)
						_ = p.Process.OnPrepare(r.ctx, r.n.ID, ev.Acct, []byte("pass"), ev.Thr, eps)
					}
				}
			}
			emitted := ev.Parts
			if r.handler && ev.Self {
				emitted = append(append([]uint64{}, ev.Parts...), 77)
			}
			msg = fmt.Sprintf("RPrepare %s %d %s", coqStr(ev.Acct), ev.Thr, coqNs(emitted))
		case "execute":
			drop := 0
			if strings.HasPrefix(ev.Fault, "drop") {
				fmt.Sscanf(ev.Fault, "drop%d", &drop)
			}
			k := 0
			r.c.mu.Lock()
			r.c.Tamper = func(m *ClusterMsg) error {
				if m.Kind == "contribute" && m.From == r.n.ID {
					k++
					if k == drop {
						m.Drop = true
					}
				}
				return nil
			}
			r.c.mu.Unlock()
			if r.handler {
				_, err = r.n.Receiver.Execute(hctx, &pb.ExecuteRequest{Account: ev.Acct})
			} else {
				err = r.n.Process.OnExecute(r.ctx, senderID, ev.Acct)
			}
			r.c.mu.Lock()
			r.c.Tamper = nil
			// what the network saw: which swaps initiated by N completed with a reply valid for N
			var swapped []uint64
			ok := true
			sent := map[uint64]bool{}
			replied := map[uint64]bool{}
			for _, m := range r.c.Log[logStart:] {
				if m.Kind == "contribute" && m.From == r.n.ID {
					sent[m.To] = true
				}
				if m.Kind == "contribute-reply" && m.To == r.n.ID && verifyShare(r.n.ID, m.Secret, *m.VVec) && preS != nil && len(*m.VVec) == int(preS.Threshold) {
					replied[m.From] = true
				}
			}
			r.c.mu.Unlock()
			for id := range sent {
				if replied[id] {
					swapped = append(swapped, id)
				} else {
					ok = false
				}
			}
			// a participant that is not a configured peer cannot even be addressed
			if preS != nil && err != nil && strings.Contains(err.Error(), "failed to obtain peer") {
				ok = false
			}
			sort.Slice(swapped, func(i, j int) bool { return swapped[i] < swapped[j] })
			msg = fmt.Sprintf("RExecute %s %s %s", coqStr(ev.Acct), coqNs(swapped), coqBool(ok))
			extra = fmt.Sprintf(" swapped=%v ok=%v", swapped, ok)
		case "contribute":
			thr := 2
			if preS != nil {
				thr = int(preS.Threshold)
			}
			fault := ev.Fault
			if fault == "undecodable" && !r.handler {
				fault = "badvvec" // typed keys at the process level: nothing undecodable can be handed over
			}
			if fault == "undecodable" && !active && r.find(pre, ev.Acct) != nil {
				// an expired generation that is still in the table: it is purged when the next message looks it up; a
				// request the handler cannot even decode never gets that far, and the model purges on every message
				fault = "badvvec"
			}
			share, vv := harnessContribution(thr, r.n.ID, fault)
			if r.handler {
				req := &pb.ContributeRequest{Account: ev.Acct, Secret: share.Serialize()}
				for i := range vv {
					req.VerificationVector = append(req.VerificationVector, vv[i].Serialize())
				}
				if fault == "undecodable" && len(req.VerificationVector) >= 2 {
					// a vector of the right length whose entries from the second on are no points at all, with the share
					// that fits the decodable beginning alone (the constant term)
					var a0 bls.SecretKey
					a0.SetByCSPRNG()
					req.Secret = a0.Serialize()
					req.VerificationVector[0] = a0.GetPublicKey().Serialize()
					for i := 1; i < len(req.VerificationVector); i++ {
						req.VerificationVector[i] = [][]byte{{}, make([]byte, 47), []byte("not a point of the curve, not even of the right length")}[i%3]
					}
				}
				var res *pb.ContributeResponse
				res, err = r.n.Receiver.Contribute(hctx, req)
				if err == nil {
					r.checkReplyOwner(senderID, res.GetSecret(), res.GetVerificationVector(), preS)
				}
			} else {
				var rs bls.SecretKey
				var rv []bls.PublicKey
				rs, rv, err = r.n.Process.OnContribute(r.ctx, senderID, ev.Acct, share, vv)
				if err == nil {
					ser := make([][]byte, len(rv))
					for i := range rv {
						ser[i] = rv[i].Serialize()
					}
					r.checkReplyOwner(senderID, rs.Serialize(), ser, preS)
				}
			}
			msg = fmt.Sprintf("RContribute %s %s", coqStr(ev.Acct), coqBool(fault == ""))
		case "commit":
			storeOK := strings.HasPrefix(ev.Acct, "Wallet 3/") && len(ev.Acct) > len("Wallet 3/") && !created[ev.Acct]
			if r.handler {
				_, err = r.n.Receiver.Commit(hctx, &pb.CommitRequest{Account: ev.Acct, ConfirmationData: []byte("confirm")})
			} else {
				_, _, err = r.n.Process.OnCommit(r.ctx, senderID, ev.Acct, []byte("confirm"))
			}
			msg = fmt.Sprintf("RCommit %s %s", coqStr(ev.Acct), coqBool(storeOK))
		case "abort":
			if r.handler {
				_, err = r.n.Receiver.Abort(hctx, &pb.AbortRequest{Account: ev.Acct})
			} else {
				err = r.n.Process.OnAbort(r.ctx, senderID, ev.Acct)
			}
			msg = fmt.Sprintf("RAbort %s", coqStr(ev.Acct))
		}
	}()
	if msg == "" {
		msg = fmt.Sprintf("RAbort %s", coqStr(ev.Acct))
	}
	o := &sessObs{Class: classify(err), Sessions: r.n.Process.VerifSessions(), Accounts: nodeAccounts(r.ctx, r.n, "Wallet 3")}
	if r.handler {
		// the handlers hide the error class; "unknown sender" is the refusal
		if err != nil && strings.Contains(err.Error(), "unknown sender") {
			o.Refused = true
		} else if err != nil {
			o.Class = "EOther"
		}
	}
	for _, a := range o.Accounts {
		created[a] = true
	}
	post := r.find(o.Sessions, ev.Acct)
	who := fmt.Sprintf("sender=%d", senderID)
	if r.handler {
		who = fmt.Sprintf("caller=%q", ev.Caller)
	}
	d := fmt.Sprintf("t=%dms %s %q %s thr=%d parts=%v fault=%q%s -> %v", now, ev.Kind, ev.Acct, who, ev.Thr, ev.Parts, ev.Fault, extra, err)
	r.descr = append(r.descr, d)
	r.stat("event." + ev.Kind)
	r.stat("reply." + o.Class)
	if o.Refused {
		r.stat("reply.refused-unknown-sender")
	}

	// ---- the property itself, judged on the implementation's own state ----
	fail := func(f string, a ...any) {
		r.monFail = append(r.monFail, fmt.Sprintf(f, a...)+" | event: "+d)
	}
	if panicked != "" {
		fail("the instance panicked: %s", panicked)
	}
	same := func(a, b *standardprocess.VerifSession) bool {
		return a != nil && b != nil && a.Started.Equal(b.Started) && fmt.Sprint(a.Contributed) == fmt.Sprint(b.Contributed) && fmt.Sprint(a.Participants) == fmt.Sprint(b.Participants)
	}
	if r.handler && !callerIsPeer {
		// C16: refused and nothing changed
		if !o.Refused {
			fail("message from a caller that is not a peer was not refused")
		}
		if fmt.Sprint(sessKey(pre)) != fmt.Sprint(sessKey(o.Sessions)) || fmt.Sprint(preAccts) != fmt.Sprint(o.Accounts) {
			fail("message from a caller that is not a peer changed the state: before %v %v after %v %v", sessKey(pre), preAccts, sessKey(o.Sessions), o.Accounts)
		}
	} else {
		if r.handler && o.Refused {
			fail("message from peer %d refused as unknown sender", senderID)
		}
		switch ev.Kind {
		case "prepare":
			if active {
				if err == nil {
					fail("prepare accepted while a generation is active")
				}
				if !r.handler && !errors.Is(err, standardprocess.ErrInProgress) {
					fail("prepare while active: error is not ErrInProgress")
				}
				if !same(preS, post) {
					fail("prepare while active altered the generation")
				}
			} else if ev.Thr > 0 {
				if err != nil {
					fail("prepare refused although no generation is active")
				}
				if post == nil {
					fail("prepare accepted but no generation is active afterwards")
				}
			}
		case "execute", "contribute", "commit", "abort":
			// the time limit counts from the preparation: no later message moves the start
			if active && post != nil && !post.Started.Equal(preS.Started) {
				fail("%s moved the start of the generation, from which its time limit counts, by %v", ev.Kind, post.Started.Sub(preS.Started))
			}
			if !active {
				if err == nil {
					fail("%s accepted without an active generation", ev.Kind)
				}
				if post != nil {
					fail("%s without an active generation left a generation behind", ev.Kind)
				}
				if fmt.Sprint(preAccts) != fmt.Sprint(o.Accounts) {
					fail("%s without an active generation changed the accounts", ev.Kind)
				}
			}
		}
		if ev.Kind == "contribute" && err == nil && ev.Fault != "" && ev.Fault != "longvvec" && ev.Fault != "shortvvec" {
			// (a consistent polynomial of another degree is judged by the model: the length rule)
			fail("a contribution that does not verify (%s) was accepted", ev.Fault)
		}
		if ev.Kind == "commit" && err == nil {
			if preS == nil {
				fail("commit succeeded without a generation")
			} else {
				have := map[uint64]bool{}
				for _, id := range preS.Contributed {
					have[id] = true
				}
				// judged, like the theorem, for contributions that all come from listed participants
				// (the code compares counts: observation O2)
				listed := map[uint64]bool{}
				fromListed := true
				for _, id := range preS.Participants {
					fromListed = fromListed && !listed[id]
					listed[id] = true
				}
				for _, id := range preS.Contributed {
					fromListed = fromListed && listed[id]
				}
				if !fromListed {
					r.stat("commit.ok.with-unlisted-contributor(O2)")
				}
				for _, id := range preS.Participants {
					if !have[id] && fromListed {
						fail("commit succeeded although participant %d had not contributed", id)
					}
				}
			}
			if post != nil {
				fail("generation still present after a successful commit")
			}
			found := false
			for _, a := range o.Accounts {
				found = found || a == ev.Acct
			}
			if !found {
				fail("commit succeeded but the account is not in the wallet")
			}
		}
		if ev.Kind == "commit" && err != nil && fmt.Sprint(preAccts) != fmt.Sprint(o.Accounts) {
			fail("failed commit changed the accounts")
		}
		// a commit that fails is not an end of the generation: only a successful commit, an abort or the time limit is
		if ev.Kind == "commit" && err != nil && active && post == nil && time.Since(preS.Started) < sessTimeout-sessMargin {
			fail("the generation disappeared with a commit that failed (%v): neither committed, nor aborted, nor expired", err)
		}
		if ev.Kind == "abort" && err == nil && post != nil {
			fail("generation still present after an abort")
		}
		if ev.Kind != "commit" && fmt.Sprint(preAccts) != fmt.Sprint(o.Accounts) {
			fail("%s changed the accounts", ev.Kind)
		}
	}
	// other names are never touched
	for i := range pre {
		if pre[i].Account != ev.Acct {
			if q := r.find(o.Sessions, pre[i].Account); !same(&pre[i], q) {
				fail("event for %q altered the generation for %q", ev.Acct, pre[i].Account)
			}
		}
	}
	// at most one entry per name holds by construction of the map; the view must agree
	seen := map[string]bool{}
	for _, s := range o.Sessions {
		if seen[s.Account] {
			fail("two generations for %q", s.Account)
		}
		seen[s.Account] = true
	}

	name := "None"
	if r.handler {
		if ev.Caller != "" {
			name = "(Some " + coqStr(ev.Caller) + ")"
		}
		r.lines = append(r.lines, fmt.Sprintf("(HRecv %s (%s), %s)", name, msg, r.coqObs(o)))
	} else {
		// process level: the same messages with the sender given explicitly
		r.lines = append(r.lines, fmt.Sprintf("(to_event %d%%N (%s), %s)", senderID, msg, r.coqObs(o)))
	}
}

func hasZero(l []uint64) bool {
	for _, x := range l {
		if x == 0 {
			return true
		}
	}
	return false
}

func sessKey(ss []standardprocess.VerifSession) []string {
	var out []string
	for _, s := range ss {
		out = append(out, fmt.Sprintf("%s@%d:%v:%v", s.Account, s.Started.UnixNano(), s.Participants, s.Contributed))
	}
	return out
}

// checkReplyOwner: the share in a contribution reply is the one this instance dealt to the authenticated
// sender (compared with the dealt shares of the generation as it was before the event), and nobody else's.
func (r *sessRunner) checkReplyOwner(sender uint64, secret []byte, vvec [][]byte, preS *standardprocess.VerifSession) {
	if preS == nil {
		return
	}
	mine, listed := preS.Dealt[sender]
	if !listed {
		// nothing was dealt to this sender: the reply must not carry anybody's share
		for id, d := range preS.Dealt {
			if sameBytes(d, secret) {
				r.monFail = append(r.monFail, fmt.Sprintf("contribution reply to %d (not a participant) carries the share dealt to participant %d", sender, id))
			}
		}
		r.stat("reply.share.none")
		return
	}
	if sameBytes(mine, secret) {
		r.stat("reply.share.for-sender")
	} else {
		r.monFail = append(r.monFail, fmt.Sprintf("contribution reply to %d carries a share that is not the one dealt to %d", sender, sender))
	}
	for id, d := range preS.Dealt {
		if id != sender && sameBytes(d, secret) {
			r.monFail = append(r.monFail, fmt.Sprintf("contribution reply to %d carries the share dealt to participant %d", sender, id))
		}
	}
	// the reply's vector is the instance's own vector as held before the event (a contribution under the
	// instance's OWN identifier replaces that entry first - observation O8 - and is not judged here)
	if sender == r.n.ID {
		return
	}
	if len(vvec) != len(preS.OwnVVec) {
		r.monFail = append(r.monFail, fmt.Sprintf("contribution reply to %d carries %d vector entries, the instance holds %d", sender, len(vvec), len(preS.OwnVVec)))
		return
	}
	for i := range vvec {
		if !sameBytes(vvec[i], preS.OwnVVec[i]) {
			r.monFail = append(r.monFail, fmt.Sprintf("contribution reply to %d carries a vector that is not the instance's own", sender))
			return
		}
	}
}

// genSessSeq makes an event sequence: mostly protocol-shaped flows with repeats, out-of-order
// messages, expiries and faults mixed in.
func genSessSeq(rng *PRNG, ids []uint64, self uint64, handler bool, n int) []sessEvent {
	accts := []string{"Wallet 3/a", "Wallet 3/b", "Wallet 3/c", "Wallet 9/x"}
	callers := []string{}
	for _, id := range ids {
		callers = append(callers, nodeName(id))
	}
	strangers := []string{"client1", "", "mallory", "signer-test", "Signer-Test01", nodeName(77),
		nodeName(ids[0]) + "0", nodeName(ids[len(ids)-1]) + ".evil.example", " " + nodeName(ids[0])} // names that extend a peer's name
	pickCaller := func() (string, uint64) {
		if handler && rng.Chance(35) {
			return strangers[rng.Intn(len(strangers))], 0
		}
		i := rng.Intn(len(ids))
		return callers[i], ids[i]
	}
	parts := func() []uint64 {
		p := append([]uint64{}, ids...)
		switch rng.Intn(12) {
		case 0:
			p = p[:len(p)-1] // someone left out (possibly self)
		case 1:
			p = append(p, 4242) // a participant that is no peer
		case 2:
			p = append(p, p[0]) // listed twice
		case 3:
			p = append([]uint64{0}, p...) // identifier 0
		}
		if rng.Chance(40) {
			for i := len(p) - 1; i > 0; i-- {
				j := rng.Intn(i + 1)
				p[i], p[j] = p[j], p[i]
			}
		}
		return p
	}
	var out []sessEvent
	add := func(e sessEvent) {
		c, id := pickCaller()
		e.Caller, e.Sender = c, id
		if e.Kind == "prepare" && handler && id == 0 && c != "" && rng.Chance(50) {
			e.Self = true
		}
		if e.Kind == "contribute" && !handler && rng.Chance(15) {
			e.Sender = []uint64{4242, self, 1 << 63}[rng.Intn(3)]
		}
		out = append(out, e)
	}
	for len(out) < n {
		a := accts[rng.Intn(len(accts))]
		switch rng.Intn(10) {
		case 0, 1, 2, 3: // a protocol-shaped flow, possibly cut short or disturbed
			p := parts()
			thr := uint32(len(p)/2 + 1)
			if rng.Chance(8) {
				thr = 0
			}
			add(sessEvent{Kind: "prepare", Acct: a, Thr: thr, Parts: p})
			if rng.Chance(20) {
				add(sessEvent{Kind: "prepare", Acct: a, Thr: thr, Parts: parts()})
			}
			if rng.Chance(15) {
				add(sessEvent{Kind: "commit", Acct: a})
			}
			if rng.Chance(12) {
				out = append(out, sessEvent{Kind: "advance", Sleep: sessTimeout + sessMargin + 30*time.Millisecond})
			}
			if rng.Chance(85) {
				f := ""
				if rng.Chance(20) {
					f = fmt.Sprintf("drop%d", 1+rng.Intn(2))
				}
				add(sessEvent{Kind: "execute", Acct: a, Fault: f})
			}
			// the lower participants' swaps arrive as contributions
			for _, id := range p {
				if id < self && id != 0 && rng.Chance(90) {
					f := ""
					if rng.Chance(15) {
						f = []string{"badshare", "otherid", "badvvec", "longvvec", "shortvvec", "undecodable"}[rng.Intn(6)]
					}
					e := sessEvent{Kind: "contribute", Acct: a, Fault: f}
					e.Caller, e.Sender = nodeName(id), id
					out = append(out, e)
				}
			}
			// a generation that keeps receiving messages still ends at its time limit, counted from the preparation
			if rng.Chance(6) {
				out = append(out, sessEvent{Kind: "advance", Sleep: sessTimeout/2 + 50*time.Millisecond})
				for _, id := range p {
					if id < self && id != 0 {
						e := sessEvent{Kind: "contribute", Acct: a}
						e.Caller, e.Sender = nodeName(id), id
						out = append(out, e)
					}
				}
				out = append(out, sessEvent{Kind: "advance", Sleep: sessTimeout/2 + sessMargin + 30*time.Millisecond})
				add(sessEvent{Kind: []string{"abort", "prepare", "commit"}[rng.Intn(3)], Acct: a, Thr: thr, Parts: p})
			}
			if rng.Chance(15) {
				add(sessEvent{Kind: "execute", Acct: a})
			}
			if rng.Chance(10) {
				add(sessEvent{Kind: "abort", Acct: a})
			}
			if rng.Chance(85) {
				add(sessEvent{Kind: "commit", Acct: a})
			}
			if rng.Chance(30) {
				add(sessEvent{Kind: []string{"commit", "abort", "execute", "contribute"}[rng.Intn(4)], Acct: a})
			}
		case 4:
			add(sessEvent{Kind: "contribute", Acct: a, Fault: []string{"", "", "badshare", "otherid", "badvvec", "longvvec", "undecodable"}[rng.Intn(7)]})
		case 5:
			add(sessEvent{Kind: "execute", Acct: a})
		case 6:
			add(sessEvent{Kind: "commit", Acct: a})
		case 7:
			add(sessEvent{Kind: "abort", Acct: a})
		case 8:
			out = append(out, sessEvent{Kind: "advance", Sleep: time.Duration(rng.Intn(200)) * time.Millisecond})
		case 9:
			out = append(out, sessEvent{Kind: "advance", Sleep: sessTimeout + sessMargin + 30*time.Millisecond})
		}
	}
	return out
}

func cmdSessions(prop string, args []string) int {
	cf := parseCommon(prop, args, nil)
	ctx := context.Background()
	handler := prop == "C16"
	nSeq, nEv := 24, 22
	if cf.tier == "thorough" {
		nSeq, nEv = 160, 40
	}
	type result struct {
		idx     int
		line    string
		descr   []string
		monFail []string
		err     error
	}
	stats := map[string]int{}
	var statsMu sync.Mutex
	results := make([]result, nSeq)
	seeds := make([]uint64, nSeq)
	master := NewPRNG(cf.seed)
	for i := range seeds {
		seeds[i] = master.U64()
	}
	var wg sync.WaitGroup
	sem := make(chan struct{}, 12)
	for si := 0; si < nSeq; si++ {
		wg.Add(1)
		go func(si int) {
			defer wg.Done()
			sem <- struct{}{}
			defer func() { <-sem }()
			rng := NewPRNG(seeds[si])
			idsets := [][]uint64{{1, 2, 3}, {1, 2, 3}, {5, 6, 7, 8}, {10, 20}, {3, 1 << 40, 18446744073709551615}}
			ids := idsets[rng.Intn(len(idsets))]
			self := ids[rng.Intn(len(ids))]
			c, err := newTimedCluster(ctx, ids, self, sessTimeout)
			if err != nil {
				results[si].err = err
				return
			}
			defer c.Close(ctx)
			r := &sessRunner{ctx: ctx, c: c, n: c.Nodes[self], handler: handler, t0: time.Now(), stats: stats, statsMu: &statsMu}
			created := map[string]bool{}
			for _, ev := range genSessSeq(rng, ids, self, handler, nEv) {
				ev := ev
				r.step(&ev, created)
			}
			var peers []string
			for _, id := range ids {
				peers = append(peers, fmt.Sprintf("(%d%%N, %s)", id, coqStr(nodeName(id))))
			}
			if handler {
				results[si].line = fmt.Sprintf(" HC %s %s %d%%N %d%%nat %s", coqN(si+1), coqList(peers), self, sessTimeout.Milliseconds(), coqList(r.lines))
			} else {
				// advance events are written as handler events; convert
				var ls []string
				for _, l := range r.lines {
					if strings.HasPrefix(l, "(HAdvance ") {
						var d int
						fmt.Sscanf(l, "(HAdvance %d,", &d)
						l = fmt.Sprintf("(SAdvance %d, None)", d)
					}
					ls = append(ls, l)
				}
				results[si].line = fmt.Sprintf(" SC %s %d%%N %d%%nat %s", coqN(si+1), self, sessTimeout.Milliseconds(), coqList(ls))
			}
			results[si].descr = r.descr
			results[si].monFail = r.monFail
			statsMu.Lock()
			stats[fmt.Sprintf("cluster.n=%d", len(ids))]++
			statsMu.Unlock()
		}(si)
	}
	wg.Wait()
	var lines, monFail, samples []string
	idx := map[string]string{}
	events := 0
	for si, res := range results {
		if res.err != nil {
			fmt.Fprintln(os.Stderr, "sequence", si, res.err)
			return 2
		}
		lines = append(lines, res.line)
		monFail = append(monFail, res.monFail...)
		idx[fmt.Sprint(si+1)] = strings.Join(res.descr, "\n    ")
		events += len(res.descr)
		if len(samples) < 2 {
			samples = append(samples, strings.Join(res.descr[:min(len(res.descr), 6)], " ; "))
		}
	}
	// simultaneous prepares for one name on one instance: exactly one may be accepted (whatever the
	// order they are taken in, the model accepts the first and refuses the rest)
	if !handler {
		c, err := newTimedCluster(ctx, []uint64{1, 2, 3}, 1, time.Hour)
		if err != nil {
			return 2
		}
		n := c.Nodes[1]
		rounds := 24
		if cf.tier == "thorough" {
			rounds = 60
		}
		eps := []*core.Endpoint{{ID: 1, Name: nodeName(1), Port: 10001}, {ID: 2, Name: nodeName(2), Port: 10002}, {ID: 3, Name: nodeName(3), Port: 10003}}
		for r := 0; r < rounds; r++ {
			name := fmt.Sprintf("Wallet 3/p%d", r)
			const k = 8
			errs := make([]error, k)
			var wg sync.WaitGroup
			start := make(chan struct{})
			for i := 0; i < k; i++ {
				wg.Add(1)
				go func(i int) {
					defer wg.Done()
					<-start
					errs[i] = n.Process.OnPrepare(ctx, uint64(1+i%3), name, []byte("pass"), 2, eps)
				}(i)
			}
			close(start)
			wg.Wait()
			okN, inProg := 0, 0
			for _, e := range errs {
				switch {
				case e == nil:
					okN++
				case errors.Is(e, standardprocess.ErrInProgress):
					inProg++
				}
			}
			stats["concurrent-prepare.rounds"]++
			events += k
			if okN != 1 || inProg != k-1 {
				monFail = append(monFail, fmt.Sprintf("%d simultaneous prepares for %q: %d accepted, %d refused as in progress (exactly one may be accepted)", k, name, okN, inProg))
			}
		}
		c.Close(ctx)
	}
	if handler {
		mf, pairs, err := shareOwnershipSweep(ctx, cf.tier == "thorough")
		if err != nil {
			fmt.Fprintln(os.Stderr, "ownership sweep:", err)
			return 2
		}
		monFail = append(monFail, mf...)
		stats["ownership.pairs"] = pairs
		events += pairs
	}
	var b strings.Builder
	b.WriteString("From DV Require Import Corr.CheckDkg.\nLocal Open Scope string_scope.\n")
	if handler {
		fmt.Fprintf(&b, "Definition cases : list hcase := [\n%s].\n", strings.Join(lines, ";\n"))
		b.WriteString("Definition M := Eval vm_compute in hmismatches cases.\nPrint M.\n")
	} else {
		fmt.Fprintf(&b, "Definition cases : list scase := [\n%s].\n", strings.Join(lines, ";\n"))
		b.WriteString("Definition M := Eval vm_compute in smismatches cases.\nPrint M.\n")
	}
	file := "cases_" + prop + "_0.v"
	if err := os.WriteFile(filepath.Join(cf.out, file), []byte(b.String()), 0o644); err != nil {
		return 2
	}
	level := "process service (OnPrepare/OnExecute/OnContribute/OnCommit/OnAbort called with a sender identifier)"
	if handler {
		level = "receiver handlers (Prepare/Execute/Contribute/Commit/Abort called with an authenticated caller name: each peer, client1 with full permissions, empty, unknown, prefix and wrong-case peer names)"
	}
	sum := &Summary{Property: prop, Seed: cf.seed, Tier: cf.tier, Evaluations: events, Distinct: events,
		Rule: "event sequences on one real instance inside a cluster of cooperating real peers (identifier sets small, four nodes, sparse, near 2^64), at the level of the " + level +
			"; protocol-shaped flows with repeats, out-of-order messages, dropped swaps, invalid contributions (share replaced, share for another identifier, vector altered), unlisted / duplicated / zero participants, threshold 0, real expiry of the generation timeout (clock = measured milliseconds, events kept clear of the expiry instant), several account names, a wallet that does not exist; after every event the reply class, the generation table (threshold, participants, contributors) and the wallet's accounts are compared with the model, and the property is judged directly on the implementation's table",
		Histories: nSeq, Distribution: stats, Samples: samples, MonitorFailures: monFail, CaseFiles: []string{file}, CaseIndex: idx}
	if err := writeSummary(cf.out, sum); err != nil {
		return 2
	}
	return 0
}

var _ e2wtypes.Store

// shareOwnershipSweep: for every pair (replier R, caller c) of every cluster, the reply to a
// contribution sent under c's authenticated name carries exactly the share R dealt to c.
func shareOwnershipSweep(ctx context.Context, thorough bool) ([]string, int, error) {
	idsets := [][]uint64{{1, 2, 3}, {5, 6, 7, 8}, {3, 1 << 40, 18446744073709551615}}
	if thorough {
		idsets = append(idsets, []uint64{1, 2, 3, 4, 5, 6, 7}, []uint64{9223372036854775807, 9223372036854775808, 2, 1})
	}
	var fails []string
	pairs := 0
	for _, ids := range idsets {
		c, err := newTimedCluster(ctx, ids, 0, time.Hour)
		if err != nil {
			return nil, 0, err
		}
		eps := make([]*core.Endpoint, len(ids))
		for i, id := range ids {
			eps[i] = &core.Endpoint{ID: id, Name: nodeName(id), Port: uint32(10000 + id%50000)}
		}
		thr := uint32(len(ids)/2 + 1)
		for _, rid := range ids {
			R := c.Nodes[rid]
			if err := R.Process.OnPrepare(ctx, rid, "Wallet 3/own", []byte("pass"), thr, eps); err != nil {
				return nil, 0, err
			}
			seen := map[string]uint64{}
			for _, cid := range ids {
				if cid == rid {
					continue
				}
				pairs++
				share, vv := harnessContribution(int(thr), rid, "")
				req := &pb.ContributeRequest{Account: "Wallet 3/own", Secret: share.Serialize()}
				for i := range vv {
					req.VerificationVector = append(req.VerificationVector, vv[i].Serialize())
				}
				res, err := R.Receiver.Contribute(ctxWithClient(ctx, nodeName(cid), ""), req)
				if err != nil {
					fails = append(fails, fmt.Sprintf("ownership: contribution of peer %d to %d refused: %v", cid, rid, err))
					continue
				}
				var sk bls.SecretKey
				if err := sk.Deserialize(res.GetSecret()); err != nil {
					fails = append(fails, fmt.Sprintf("ownership: reply of %d to %d has no share", rid, cid))
					continue
				}
				rv := make([]bls.PublicKey, len(res.GetVerificationVector()))
				for i, b := range res.GetVerificationVector() {
					_ = rv[i].Deserialize(b)
				}
				if len(rv) != int(thr) {
					fails = append(fails, fmt.Sprintf("ownership: reply of %d carries %d vector entries, threshold %d", rid, len(rv), thr))
				}
				for _, other := range ids {
					ok := verifyShare(other, &sk, rv)
					if other == cid && !ok {
						fails = append(fails, fmt.Sprintf("ownership: reply of %d to authenticated peer %d is not the share dealt to %d", rid, cid, cid))
					}
					if other != cid && ok {
						fails = append(fails, fmt.Sprintf("ownership: reply of %d to authenticated peer %d is the share dealt to %d", rid, cid, other))
					}
				}
				if prev, dup := seen[sk.SerializeToHexStr()]; dup {
					fails = append(fails, fmt.Sprintf("ownership: %d handed the same share to %d and %d", rid, prev, cid))
				}
				seen[sk.SerializeToHexStr()] = cid
			}
		}
		// different callers at the same time: a stranger is refused every time, each peer gets its own share,
		// the generation survives
		if len(ids) >= 3 {
			R := c.Nodes[ids[0]]
			acct := "Wallet 3/conc"
			if err := R.Process.OnPrepare(ctx, ids[0], acct, []byte("pass"), thr, eps); err == nil {
				var pre *standardprocess.VerifSession
				for _, s := range R.Process.VerifSessions() {
					if s.Account == acct {
						s := s
						pre = &s
					}
				}
				stop := time.Now().Add(500 * time.Millisecond)
				var cmu sync.Mutex
				var cwg sync.WaitGroup
				calls := 0
				var cfails []string
				peerCaller := func(cid uint64) {
					defer cwg.Done()
					share, vv := harnessContribution(int(thr), ids[0], "")
					req := &pb.ContributeRequest{Account: acct, Secret: share.Serialize()}
					for i := range vv {
						req.VerificationVector = append(req.VerificationVector, vv[i].Serialize())
					}
					for time.Now().Before(stop) {
						res, err := R.Receiver.Contribute(ctxWithClient(ctx, nodeName(cid), ""), req)
						cmu.Lock()
						calls++
						if err != nil {
							cfails = append(cfails, fmt.Sprintf("concurrent callers: contribution of peer %d refused: %v", cid, err))
						} else if pre != nil && !sameBytes(res.GetSecret(), pre.Dealt[cid]) {
							cfails = append(cfails, fmt.Sprintf("concurrent callers: the reply to peer %d does not carry the share dealt to %d", cid, cid))
						}
						cmu.Unlock()
					}
				}
				stranger := func(name string) {
					defer cwg.Done()
					for time.Now().Before(stop) {
						_, err := R.Receiver.Abort(ctxWithClient(ctx, name, ""), &pb.AbortRequest{Account: acct})
						cmu.Lock()
						calls++
						if err == nil || !strings.Contains(err.Error(), "unknown sender") {
							cfails = append(cfails, fmt.Sprintf("concurrent callers: Abort by %q (not a peer) was not refused: %v", name, err))
						}
						cmu.Unlock()
					}
				}
				cwg.Add(4)
				go peerCaller(ids[1])
				go peerCaller(ids[2])
				go stranger("client1")
				go stranger("mallory")
				cwg.Wait()
				alive := false
				for _, s := range R.Process.VerifSessions() {
					alive = alive || s.Account == acct
				}
				if !alive {
					cfails = append(cfails, "concurrent callers: the generation was destroyed although only strangers sent Abort")
				}
				if len(cfails) > 10 {
					cfails = cfails[:10]
				}
				fails = append(fails, cfails...)
				pairs += calls
			}
		}
		// a configured peer that is NOT a participant of the generation gets nobody's share
		if len(ids) >= 3 {
			inner := ids[:len(ids)-1]
			outsider := ids[len(ids)-1]
			ieps := eps[:len(eps)-1]
			R := c.Nodes[inner[0]]
			if err := R.Process.OnPrepare(ctx, inner[0], "Wallet 3/own2", []byte("pass"), uint32(len(inner)/2+1), ieps); err == nil {
				var pre *standardprocess.VerifSession
				for _, s := range R.Process.VerifSessions() {
					if s.Account == "Wallet 3/own2" {
						s := s
						pre = &s
					}
				}
				share, vv := harnessContribution(len(inner)/2+1, inner[0], "")
				req := &pb.ContributeRequest{Account: "Wallet 3/own2", Secret: share.Serialize()}
				for i := range vv {
					req.VerificationVector = append(req.VerificationVector, vv[i].Serialize())
				}
				res, err := R.Receiver.Contribute(ctxWithClient(ctx, nodeName(outsider), ""), req)
				pairs++
				if err == nil && pre != nil {
					for id, d := range pre.Dealt {
						if sameBytes(d, res.GetSecret()) {
							fails = append(fails, fmt.Sprintf("ownership: peer %d, not a participant of the generation, received the share dealt to participant %d by %d", outsider, id, inner[0]))
						}
					}
				}
			}
		}
		c.Close(ctx)
	}
	return fails, pairs, nil
}
