package main

import (
	"bufio"
	"bytes"
	"context"
	"encoding/binary"
	"encoding/json"
	"flag"
	"fmt"
	"github.com/attestantio/dirk/rules"
	"os"
	"os/exec"
	"path/filepath"
	"strings"
	"sync"
	"syscall"

	"github.com/attestantio/dirk/util/verifhook"
	badger "github.com/dgraph-io/badger/v2"
)

// ---- child: serves a history and kills itself at hook point number killAt ----

func cmdCrashChild(args []string) int {
	fs := flag.NewFlagSet("C03child", flag.ExitOnError)
	dir := fs.String("dir", "", "storage directory")
	hist := fs.String("hist", "", "history file (json)")
	killAt := fs.Int("killat", -1, "hook point at which to SIGKILL self (-1 = never)")
	from := fs.Int("from", 0, "first operation to run")
	_ = fs.Parse(args)
	ctx := context.Background()
	fx, err := NewFixture(ctx, 1, 3, false)
	if err != nil {
		fmt.Println("ERR fixture", err)
		return 2
	}
	data, err := os.ReadFile(*hist)
	if err != nil {
		return 2
	}
	var ops []*Op
	if err := json.Unmarshal(data, &ops); err != nil {
		fmt.Println("ERR json", err)
		return 2
	}
	inst, err := NewInstance(ctx, fx, InstanceOpts{AdminIPs: []string{"10.0.0.1"}, Perms: permsFromTbl(stdPermTbl), Dir: *dir})
	if err != nil {
		fmt.Println("ERR instance", err)
		return 2
	}
	out := os.Stdout
	var mu sync.Mutex
	count := 0
	cur := 0
	point := func(site string, keys []int) {
		mu.Lock()
		defer mu.Unlock()
		fmt.Fprintf(out, "EV %d %d %s %v\n", count, cur, site, keys)
		if count == *killAt {
			_ = syscall.Kill(os.Getpid(), syscall.SIGKILL)
			select {}
		}
		count++
	}
	base := inst.hook
	verifhook.Set(func(c context.Context, site string, keys [][]byte) error {
		point(site, inst.keyIDs(keys))
		return base(c, site, keys)
	})
	inst.signHook = func(a *AcctInfo) { point("sign.pre", []int{a.ID}) }
	inst.signedHook = func(a *AcctInfo) {
		mu.Lock()
		fmt.Fprintf(out, "SIGN %d %d\n", cur, a.ID)
		mu.Unlock()
		point("sign.post", []int{a.ID})
	}
	for j := *from; j < len(ops); j++ {
		mu.Lock()
		cur = j
		fmt.Fprintf(out, "OP %d\n", j)
		mu.Unlock()
		point("op.start", nil)
		obs, err := inst.Exec(ctx, ops[j])
		if err != nil {
			fmt.Println("ERR exec", err)
			return 2
		}
		var st []string
		for _, o := range obs {
			st = append(st, fmt.Sprintf("%d/%v", o.State, o.SigLen > 0))
		}
		mu.Lock()
		fmt.Fprintf(out, "DONE %d %s\n", j, strings.Join(st, ","))
		mu.Unlock()
		point("op.end", nil)
	}
	fmt.Fprintf(out, "END %d\n", count)
	_ = closeRules(ctx, inst.Rules)
	return 0
}

type childLog struct {
	events   int
	lastOp   int
	done     map[int]bool
	signs    map[int][]int // op -> account ids whose Sign returned
	wrote    map[int]bool  // op -> a store/batch post event was seen
	ended    bool
	sitesFor map[int][]string
}

func parseChild(out string) *childLog {
	l := &childLog{lastOp: -1, done: map[int]bool{}, signs: map[int][]int{}, wrote: map[int]bool{}, sitesFor: map[int][]string{}}
	sc := bufio.NewScanner(strings.NewReader(out))
	sc.Buffer(make([]byte, 1<<20), 1<<20)
	for sc.Scan() {
		f := strings.Fields(sc.Text())
		if len(f) == 0 {
			continue
		}
		switch f[0] {
		case "OP":
			fmt.Sscan(f[1], &l.lastOp)
		case "DONE":
			var j int
			fmt.Sscan(f[1], &j)
			l.done[j] = true
		case "SIGN":
			var j, id int
			fmt.Sscan(f[1], &j)
			fmt.Sscan(f[2], &id)
			l.signs[j] = append(l.signs[j], id)
		case "EV":
			var n, j int
			fmt.Sscan(f[1], &n)
			fmt.Sscan(f[2], &j)
			l.events = n + 1
			l.sitesFor[j] = append(l.sitesFor[j], f[3])
			if f[3] == "store.post" || f[3] == "batch.post" {
				l.wrote[j] = true
			}
		case "END":
			l.ended = true
		}
	}
	return l
}

// ---- parent ----

func cmdCrash(args []string) int {
	cf := parseCommon("C03", args, nil)
	ctx := context.Background()
	fx, err := NewFixture(ctx, 1, 3, false)
	if err != nil {
		fmt.Fprintln(os.Stderr, "fixture:", err)
		return 2
	}
	stdPermTbl = map[string][]string{"client1": {"Wallet 1"}}
	rng := NewPRNG(cf.seed)
	var monFail, samples []string
	stats := map[string]int{}
	idx := map[string]string{}

	// (a)+(b): in-process histories with event-order and store-at-sign monitors
	run := &Runner{ctx: ctx, fx: fx, stats: stats}
	nHist, nOps := 6, 40
	if cf.tier == "thorough" {
		nHist, nOps = 60, 60
	}
	syncWrites := true
	for h := 0; h < nHist; h++ {
		inst, err := run.newInstance([]string{"10.0.0.1"})
		if err != nil {
			return 2
		}
		if v, ok := verifhook.Noted("badger.options"); ok {
			if o, ok := v.(badger.Options); ok {
				syncWrites = syncWrites && o.SyncWrites
			}
		} else {
			monFail = append(monFail, "the open store did not report its badger options")
		}
		g := newGenState(fx, rng.Fork())
		var curOp *Op
		var hookMu sync.Mutex
		inst.signHook = func(a *AcctInfo) {
			// at the moment Sign is invoked the store must already dominate the request
			// (batches sign from several workers at once)
			hookMu.Lock()
			defer hookMu.Unlock()
			sv, err := inst.ReadStore(ctx)
			if err != nil || curOp == nil {
				return
			}
			for i, ad := range curOp.Addrs {
				if r := inst.resolveInfo(ad); r == nil || r.ID != a.ID {
					continue
				}
				switch curOp.Kind {
				case KAttest, KAttests:
					d := curOp.Atts[i]
					rec, ok := sv.Att[a.ID]
					if !ok || rec.Src < int64(d.Src.Epoch) || rec.Tgt < int64(d.Tgt.Epoch) {
						monFail = append(monFail, fmt.Sprintf("Sign invoked for attestation %d->%d of key#%d while the stored record is %+v (present %v): the approval is not yet recorded :: %s", d.Src.Epoch, d.Tgt.Epoch, a.ID, rec, ok, curOp))
					}
				case KPropose:
					rec, ok := sv.Prop[a.ID]
					if !ok || rec < int64(curOp.Props[i].Slot) {
						monFail = append(monFail, fmt.Sprintf("Sign invoked for proposal slot %d of key#%d while the stored slot is %d (present %v) :: %s", curOp.Props[i].Slot, a.ID, rec, ok, curOp))
					}
				}
			}
			stats["sign.storechecked"]++
		}
		// when a write of protection records has returned, the records are in the files: a copy of the store's
		// files taken at that instant (what a kill of the process at that instant leaves behind), opened as a
		// store of its own, holds for the written keys what the live store shows for them
		storeEvents := 0
		base := inst.hook
		verifhook.Set(func(c context.Context, site string, keys [][]byte) error {
			if (site == "store.post" || site == "batch.post") && len(keys) > 0 {
				storeEvents++
				if storeEvents%3 == 1 || cf.tier == "thorough" {
					img, ierr := crashImage(inst.Dir) // first the files, then the live view (which waits for pending commits)
					live, lerr := inst.Rules.VerifRaw(ctx)
					if ierr != nil || lerr != nil {
						stats["crashimage.unreadable"]++
					} else {
						stats["crashimage.checked"]++
						for _, k := range keys {
							var k49 [49]byte
							copy(k49[:], k)
							if lv, ok := live[k49]; ok && !bytes.Equal(img[string(k)], lv) {
								hookMu.Lock()
								monFail = append(monFail, fmt.Sprintf("the write of the record of key#%v (action %d) has returned, the live store shows %x, but the store's files at that instant hold %x for it: a kill now loses an approval that is about to be signed :: %s",
									inst.keyIDs([][]byte{k}), k[len(k)-1], lv, img[string(k)], curOp))
								hookMu.Unlock()
							}
						}
					}
				}
			}
			return base(c, site, keys)
		})
		for i := 0; i < nOps; i++ {
			op := g.genSlashingOp(25)
			if op.Kind == KRestart {
				continue
			}
			if rng.Chance(6) {
				op.Fault.Store = true
			}
			if rng.Chance(4) {
				op.Fault.Fetch = []int{0}
			}
			curOp = op
			inst.StartRecording()
			rec, err := run.execStep(inst, h, i, op)
			ev := inst.StopRecording()
			if err != nil {
				return 2
			}
			g.noteSigned(op, rec.Obs, inst)
			wrote := -1
			for n, e := range ev {
				if e.Site == "store.post" || e.Site == "batch.post" {
					wrote = n
				}
				if e.Site == "sign" && (op.Kind == KAttest || op.Kind == KAttests || op.Kind == KPropose) {
					if wrote < 0 {
						monFail = append(monFail, fmt.Sprintf("Sign ran before the protection write returned (events %v) :: %s", evSites(ev), describeStep(rec)))
					}
				}
			}
			stats["trace.checked"]++
			if h == 0 && len(samples) < 4 && len(ev) > 0 {
				samples = append(samples, fmt.Sprintf("%s => events %v", op, evSites(ev)))
			}
		}
		inst.Close(ctx)
	}

	// (b2): large batches at the rules level: every approval a batch returns is already in the store,
	// whatever the batch size (write batches of any size must be complete before the answer)
	{
		inst, err := run.newInstance([]string{"10.0.0.1"})
		if err != nil {
			return 2
		}
		sizes := []int{2, 255, 1023, 1024, 1025, 1500, 2049}
		if cf.tier == "thorough" {
			sizes = append(sizes, 4096, 4097, 9999, 20000)
		}
		base := uint64(50)
		for _, n := range sizes {
			base += 3
			md := make([]*rules.ReqMetadata, n)
			rq := make([]*rules.SignBeaconAttestationData, n)
			keys := make([][]byte, n)
			for i := 0; i < n; i++ {
				k := rng.Bytes(48)
				keys[i] = k
				md[i] = &rules.ReqMetadata{Account: fmt.Sprintf("Big/%d", i), PubKey: k, Client: "client1", IP: "10.0.0.1"}
				rq[i] = &rules.SignBeaconAttestationData{Domain: mkDomain(domAttester, 0), Slot: base * 32, BeaconBlockRoot: fill32(1),
					Source: &rules.Checkpoint{Epoch: base, Root: fill32(0)}, Target: &rules.Checkpoint{Epoch: base + 1, Root: fill32(1)}}
			}
			res := inst.Rules.OnSignBeaconAttestations(ctx, md, rq)
			raw, err := inst.Rules.VerifRaw(ctx)
			if err != nil {
				return 2
			}
			missing, approved := 0, 0
			first := -1
			for i := range res {
				if res[i] != rules.APPROVED {
					continue
				}
				approved++
				var rk [49]byte
				copy(rk[:], keys[i])
				rk[48] = 2
				v, ok := raw[rk]
				if !ok || len(v) != 17 || int64(binary.LittleEndian.Uint64(v[9:17])) < int64(base+1) {
					missing++
					if first < 0 {
						first = i
					}
				}
			}
			stats[fmt.Sprintf("bigbatch.n=%d.approved", n)] = approved
			if missing > 0 {
				monFail = append(monFail, fmt.Sprintf("a batch of %d attestations was answered with %d approvals, but %d of the approved keys have no record of it in the store (first: position %d): they would be signed with nothing written", n, approved, missing, first))
			}
			if approved != n {
				monFail = append(monFail, fmt.Sprintf("a batch of %d fresh, valid attestations got only %d approvals", n, approved))
			}
		}
		inst.Close(ctx)
	}

	// (c): kill runs
	self, _ := os.Executable()
	nKillHist, killOps := 3, 8
	if cf.tier == "thorough" {
		nKillHist, killOps = 16, 14
	}
	var kcases []string
	kid := 0
	for kh := 0; kh < nKillHist; kh++ {
		// a fixed history (not adaptive): advancing duties with some conflicts and batches
		g := newGenState(fx, rng.Fork())
		var ops []*Op
		// the first history opens with the very first duties a validator can have - attestation 0->0 and the
		// block of slot 0 - for an account nothing else in the history touches, and closes with the same
		// duties over other data (to be refused in whichever life of the process they arrive)
		reserved := fx.Accounts[0]
		for _, a := range fx.Accounts {
			if a.Usable && a.Signer {
				reserved = a // the last usable account
			}
		}
		genesis := func(root byte) []*Op {
			return []*Op{
				{Kind: KAttest, Client: "client1", IP: "10.0.0.1", Addrs: []Addr{{Name: reserved.Path()}},
					Atts: []AttData{{Dom: mkDomain(domAttester, 0), BBR: fill32(root), Src: &Checkpoint{0, fill32(0)}, Tgt: &Checkpoint{0, fill32(root)}}}},
				{Kind: KPropose, Client: "client1", IP: "10.0.0.1", Addrs: []Addr{{Name: reserved.Path()}},
					Props: []PropData{{Dom: mkDomain(domProposer, 0), Slot: 0, Pidx: 1, Parent: fill32(0), State: fill32(root), Body: fill32(root)}}},
			}
		}
		nGen := killOps
		if kh == 0 {
			ops = append(ops, genesis(1)...)
			nGen = killOps - 2
		}
		for len(ops) < nGen {
			op := g.genAdvancingOp()
			if rng.Chance(25) {
				op = g.genSlashingOp(25)
			}
			if op.Kind == KRestart {
				continue
			}
			touchesReserved := false
			for _, ad := range op.Addrs {
				if a := (&Instance{fx: fx}).resolveInfo(ad); a != nil && a.ID == reserved.ID {
					touchesReserved = true
				}
			}
			if kh == 0 && touchesReserved {
				continue
			}
			op.Client, op.IP = "client1", "10.0.0.1"
			// pretend everything is signed so that later duties advance
			fake := make([]Obs, len(op.Addrs))
			for i := range fake {
				fake[i].SigLen = 96
			}
			g.noteSigned(op, fake, &Instance{fx: fx})
			ops = append(ops, op)
		}
		if kh == 0 {
			ops = append(ops, genesis(2)...)
		}
		hdata, _ := json.Marshal(ops)
		hfile := filepath.Join(cf.out, fmt.Sprintf("hist_%d.json", kh))
		if err := os.WriteFile(hfile, hdata, 0o644); err != nil {
			return 2
		}
		// dry run for the number of hook points
		d0, _ := os.MkdirTemp("", "vh-kill-")
		out0, _ := exec.Command(self, "C03child", "-dir", d0, "-hist", hfile, "-killat", "-1").Output()
		os.RemoveAll(d0)
		l0 := parseChild(string(out0))
		if !l0.ended {
			monFail = append(monFail, "the child did not finish its dry run: "+tail(string(out0), 300))
			continue
		}
		points := []int{}
		for n := 0; n < l0.events; n++ {
			if cf.tier != "thorough" && l0.events > 60 && n%2 == 1 {
				continue
			}
			points = append(points, n)
		}
		type result struct {
			n    int
			line string
			desc string
			fail []string
		}
		results := make([]result, len(points))
		var wg sync.WaitGroup
		sem := make(chan struct{}, 8)
		for pi, n := range points {
			wg.Add(1)
			go func(pi, n int) {
				defer wg.Done()
				sem <- struct{}{}
				defer func() { <-sem }()
				results[pi] = killRun(ctx, self, hfile, ops, n, fx)
			}(pi, n)
		}
		wg.Wait()
		for _, r := range results {
			if r.line == "" {
				monFail = append(monFail, r.fail...)
				continue
			}
			kid++
			kcases = append(kcases, fmt.Sprintf(" KR %s %s %s", coqN(kid), coqBool(syncWrites), r.line))
			idx[fmt.Sprint(kid)] = r.desc
			monFail = append(monFail, r.fail...)
			stats["kill.runs"]++
		}
	}
	if !syncWrites {
		monFail = append(monFail, "CONFIG the protection store is opened without SyncWrites: a write that returned may be lost on power failure (model witness C03_refuted_without_sync)")
	}

	var b strings.Builder
	b.WriteString("From DV Require Import Corr.CheckCrash.\nLocal Open Scope Z_scope.\nLocal Open Scope string_scope.\n")
	fmt.Fprintf(&b, "Definition cfg : scfg := mkcfg %s %s %s %s.\n", coqBool(cf.g63), coqStrList([]string{"10.0.0.1"}), coqAccounts(fx), coqPermTbl(stdPermTbl))
	fmt.Fprintf(&b, "Definition keys : list N := %s.\n", coqKeyIDs(fx))
	fmt.Fprintf(&b, "Definition cases : list kcase := [\n%s].\n", strings.Join(kcases, ";\n"))
	b.WriteString("Definition M := Eval vm_compute in kill_mismatches cfg keys cases.\nPrint M.\n")
	if err := os.WriteFile(filepath.Join(cf.out, "cases_C03_kill.v"), []byte(b.String()), 0o644); err != nil {
		return 2
	}
	f1, err := writeInstCases(cf.out, "C03_hist", "check_exact", cf.g63, []string{"10.0.0.1"}, fx, run.steps, 1500)
	if err != nil {
		return 2
	}
	for i := range run.steps {
		idx[fmt.Sprint(run.steps[i].ID+1000000)] = describeStepShort(&run.steps[i])
	}
	sum := &Summary{Property: "C03", Seed: cf.seed, Tier: cf.tier, Evaluations: len(run.steps) + len(kcases), Distinct: len(kcases) + stats["trace.checked"],
		Rule:         "(a) histories with store faults where every request's hook events are recorded: no Sign before the protection write returned, and at the moment Sign is invoked the store, read through a second view, already dominates the request; (b) the open store's SyncWrites option; (c) kill runs: a child process serves a fixed history and SIGKILLs itself at hook point n (every n in a short history), the parent restarts on the same directory, finishes the history and compares released signatures and the durable store with the model's crun under the corresponding cut, and probes every released duty for refusal after restart; distinct = kill points + traced requests",
		Histories:    nHist + stats["kill.runs"],
		Distribution: stats, Samples: samples, MonitorFailures: monFail, CaseFiles: append([]string{"cases_C03_kill.v"}, f1...), CaseIndex: idx,
		Extra: map[string]any{"sync_writes": syncWrites}}
	if err := writeSummary(cf.out, sum); err != nil {
		return 2
	}
	return 0
}

func evSites(ev []Event) []string {
	var s []string
	for _, e := range ev {
		s = append(s, e.Site)
	}
	return s
}

func tail(s string, n int) string {
	if len(s) > n {
		return s[len(s)-n:]
	}
	return s
}

// killRun: child killed at hook point n; restart; continue; build the Coq case.
func killRun(ctx context.Context, self, hfile string, ops []*Op, n int, fx *Fixture) (res struct {
	n    int
	line string
	desc string
	fail []string
}) {
	res.n = n
	dir, _ := os.MkdirTemp("", "vh-kill-")
	defer os.RemoveAll(dir)
	out, _ := exec.Command(self, "C03child", "-dir", dir, "-hist", hfile, "-killat", fmt.Sprint(n)).Output()
	l := parseChild(string(out))
	if l.ended {
		res.fail = append(res.fail, fmt.Sprintf("the child survived kill point %d", n))
		return
	}
	j := l.lastOp
	if j < 0 {
		// killed before the first request: nothing happened
		j = 0
	}
	// the rest of the history in a second child (one process per life of the daemon)
	from := j + 1
	if l.lastOp < 0 {
		from = 0
	}
	out2, _ := exec.Command(self, "C03child", "-dir", dir, "-hist", hfile, "-killat", "-1", "-from", fmt.Sprint(from)).Output()
	l2 := parseChild(string(out2))
	if !l2.ended {
		res.fail = append(res.fail, fmt.Sprintf("after the kill at point %d (request %d, sites %v) the restarted instance did not finish the history: %s", n, j, l.sitesFor[j], tail(string(out2), 400)))
		return
	}
	// observed signatures per request and position
	var hist, sigs []string
	posSigned := func(lg *childLog, jj int, op *Op) []string {
		var items []string
		for _, ad := range op.Addrs {
			id := 0
			signed := false
			for _, a := range fx.Accounts {
				if (ad.HasKey && string(a.Key) == string(ad.Key)) || (!ad.HasKey && a.Path() == ad.Name) {
					id = a.ID
				}
			}
			cnt := 0
			for _, s := range lg.signs[jj] {
				if s == id {
					cnt++
				}
			}
			signed = cnt > 0
			items = append(items, fmt.Sprintf("(%s, %s)", coqN(id), coqBool(signed)))
		}
		return items
	}
	for jj, op := range ops {
		switch {
		case l.lastOp >= 0 && jj < j:
			hist = append(hist, fmt.Sprintf("(%s, CDone)", coqOp(op)))
			sigs = append(sigs, coqList(posSigned(l, jj, op)))
		case l.lastOp >= 0 && jj == j:
			ps := posSigned(l, jj, op)
			if l.wrote[jj] || len(l.signs[jj]) > 0 {
				var mask []string
				for _, ad := range op.Addrs {
					id := 0
					for _, a := range fx.Accounts {
						if (ad.HasKey && string(a.Key) == string(ad.Key)) || (!ad.HasKey && a.Path() == ad.Name) {
							id = a.ID
						}
					}
					s := false
					for _, x := range l.signs[jj] {
						if x == id {
							s = true
						}
					}
					mask = append(mask, coqBool(s))
				}
				hist = append(hist, fmt.Sprintf("(%s, CKillAfter %s)", coqOp(op), coqList(mask)))
			} else {
				hist = append(hist, fmt.Sprintf("(%s, CKillBefore)", coqOp(op)))
			}
			sigs = append(sigs, coqList(ps))
		default:
			hist = append(hist, fmt.Sprintf("(%s, CDone)", coqOp(op)))
			sigs = append(sigs, coqList(posSigned(l2, jj, op)))
		}
	}
	// the durable store at the end
	inst, err := NewInstance(ctx, fx, InstanceOpts{AdminIPs: []string{"10.0.0.1"}, Perms: permsFromTbl(stdPermTbl), Dir: dir})
	if err != nil {
		res.fail = append(res.fail, fmt.Sprintf("cannot reopen the store after kill point %d: %v", n, err))
		return
	}
	post, err := inst.ReadStore(ctx)
	_ = closeRules(ctx, inst.Rules)
	if err != nil {
		res.fail = append(res.fail, fmt.Sprintf("cannot read the store after kill point %d: %v", n, err))
		return
	}
	// the property itself: everything released (by either life of the process) is dominated by the durable store
	for jj, op := range ops {
		for _, lg := range []*childLog{l, l2} {
			for _, id := range lg.signs[jj] {
				for i, ad := range op.Addrs {
					a := (&Instance{fx: fx}).resolveInfo(ad)
					if a == nil || a.ID != id {
						continue
					}
					switch op.Kind {
					case KAttest, KAttests:
						rec, present := post.Att[id]
						if !present || rec.Tgt < int64(op.Atts[i].Tgt.Epoch) || rec.Src < int64(op.Atts[i].Src.Epoch) {
							res.fail = append(res.fail, fmt.Sprintf("kill at hook point %d (request %d, sites %v): attestation %d->%d of key#%d was signed but the durable record after restart is %+v (present: %v)", n, j, l.sitesFor[j], op.Atts[i].Src.Epoch, op.Atts[i].Tgt.Epoch, id, rec, present))
						}
					case KPropose:
						if slot, present := post.Prop[id]; !present || slot < int64(op.Props[i].Slot) {
							res.fail = append(res.fail, fmt.Sprintf("kill at hook point %d (request %d, sites %v): proposal slot %d of key#%d was signed but the durable slot after restart is %d (present: %v)", n, j, l.sitesFor[j], op.Props[i].Slot, id, slot, present))
						}
					}
				}
			}
		}
	}
	res.line = fmt.Sprintf("%s %s %s", coqList(hist), coqList(sigs), coqStore(post))
	res.desc = fmt.Sprintf("kill at hook point %d = request %d (%s) at %v; signed before dying %v; durable store after finishing the history %s", n, j, ops[j], lastSite(l.sitesFor[j]), l.signs[j], fmtStore(post))
	return
}

func lastSite(s []string) string {
	if len(s) == 0 {
		return "(none)"
	}
	return s[len(s)-1]
}

// crashImage copies the files of a badger directory as they are now and opens the copy as a store of its own:
// the records a process killed at this instant would find after a restart.
func crashImage(dir string) (map[string][]byte, error) {
	cp, err := os.MkdirTemp("", "vh-image-")
	if err != nil {
		return nil, err
	}
	defer os.RemoveAll(cp)
	ents, err := os.ReadDir(dir)
	if err != nil {
		return nil, err
	}
	for _, e := range ents {
		if e.IsDir() || e.Name() == "LOCK" {
			continue
		}
		b, err := os.ReadFile(filepath.Join(dir, e.Name()))
		if err != nil {
			return nil, err
		}
		if err := os.WriteFile(filepath.Join(cp, e.Name()), b, 0o600); err != nil {
			return nil, err
		}
	}
	opt := badger.DefaultOptions(cp)
	opt.Logger = nil
	opt.SyncWrites = false
	opt.Truncate = true
	db, err := badger.Open(opt)
	if err != nil {
		return nil, err
	}
	defer db.Close()
	out := map[string][]byte{}
	err = db.View(func(txn *badger.Txn) error {
		it := txn.NewIterator(badger.DefaultIteratorOptions)
		defer it.Close()
		for it.Rewind(); it.Valid(); it.Next() {
			item := it.Item()
			v, err := item.ValueCopy(nil)
			if err != nil {
				return err
			}
			out[string(item.KeyCopy(nil))] = v
		}
		return nil
	})
	return out, err
}
