package main

import (
	"bytes"
	"context"
	"fmt"
	"os"
	"runtime"
)

// cmdDomains drives C05: every endpoint x domain-type prefix class x admin-IP list x source
// address, single and multi, through the real signer service.
func cmdDomains(args []string) int {
	cf := parseCommon("C05", args, nil)
	ctx := context.Background()
	fx, err := NewFixture(ctx, 2, 3, true)
	if err != nil {
		fmt.Fprintln(os.Stderr, "fixture:", err)
		return 2
	}
	rng := NewPRNG(cf.seed)
	prefixes := [][]byte{domProposer, domAttester, domRandao, {3, 0, 0, 0}, domExit, domSelProof, {1, 0, 0, 1}, {0, 0, 1, 0}, {4, 0, 0, 1}, {1, 1, 0, 0}}
	// one-byte-off neighbours of the three types the rules single out, at every byte position
	neighbours := [][]byte{{0, 0, 0, 1}, {0, 1, 0, 0}, {1, 0, 1, 0}, {4, 0, 1, 0}, {4, 1, 0, 0}, {0, 0, 0, 0x80}, {0xff, 0xff, 0xff, 0xff}}
	adminLists := [][]string{{}, {"10.0.0.1"}, {"10.0.0.1", "10.0.0.7", "192.168.1.1"}, {"2001:db8::1", "10.0.0.1"}}
	sources := []string{"", "10.0.0.1", "10.0.0.7", "10.0.0.9", "2001:db8::1", "2001:db8::2", "2001:db8:ffff:1::99",
		// unlisted addresses whose text ends with, starts with or embeds a listed one (used with the exit type only)
		"110.0.0.1", "210.0.0.7", "10.0.0.11", "::ffff:10.0.0.1", "10.0.0.1:443"}
	const plainSources = 7
	rounds := 2
	if cf.tier == "thorough" {
		rounds = 12
	}
	var allFiles []string
	stats := map[string]int{}
	monFail := realConnectionSources(ctx, stats)
	idx := map[string]string{}
	distinct := map[string]bool{}
	var samples []string
	total := 0
	for li, admin := range adminLists {
		run := &Runner{ctx: ctx, fx: fx, stats: stats, nextID: li * 1000000}
		inst, err := run.newInstance(admin)
		if err != nil {
			fmt.Fprintln(os.Stderr, "instance:", err)
			return 2
		}
		epoch := uint64(1)
		for round := 0; round < rounds; round++ {
			roundPrefixes := prefixes
			if round >= 1 {
				roundPrefixes = append(append([][]byte{}, prefixes...), neighbours...)
			}
			for pi, pre := range roundPrefixes {
				for si, src := range sources {
					if si >= plainSources && !bytes.Equal(pre, domExit) {
						continue
					}
					if pi >= len(prefixes) && (si+pi+li)%3 != 0 {
						continue // the neighbours with a third of the source addresses each
					}
					// random suffix (the decision must depend on the first four bytes only)
					dom := append(append([]byte{}, pre...), rng.Bytes(28)...)
					if round == 0 {
						dom = mkDomain(pre, 0)
					}
					a := fx.Accounts[rng.Intn(6)]
					b := fx.Accounts[rng.Intn(6)]
					for b.ID == a.ID {
						b = fx.Accounts[rng.Intn(6)]
					}
					g := &genState{fx: fx, rng: rng}
					epoch++
					ops := []*Op{
						{Kind: KSign, Client: "client1", IP: src, Addrs: []Addr{g.addrFor(a)}, Signs: []SignData{{Dom: dom, Data: rng.Bytes(32)}}},
						{Kind: KMultisign, Client: "client1", IP: src, Addrs: []Addr{g.addrFor(a), g.addrFor(b)},
							Signs: []SignData{{Dom: dom, Data: rng.Bytes(32)}, {Dom: mkDomain(domRandao, 1), Data: rng.Bytes(32)}}},
						{Kind: KAttest, Client: "client1", IP: src, Addrs: []Addr{g.addrFor(a)},
							Atts: []AttData{{Dom: dom, BBR: fill32(1), Src: &Checkpoint{epoch - 1, fill32(0)}, Tgt: &Checkpoint{epoch, fill32(1)}}}},
						{Kind: KAttests, Client: "client1", IP: src, Addrs: []Addr{g.addrFor(a), g.addrFor(b)},
							Atts: []AttData{{Dom: dom, BBR: fill32(1), Src: &Checkpoint{epoch, fill32(0)}, Tgt: &Checkpoint{epoch + 1, fill32(1)}},
								{Dom: mkDomain(domAttester, 2), BBR: fill32(1), Src: &Checkpoint{epoch, fill32(0)}, Tgt: &Checkpoint{epoch + 1, fill32(1)}}}},
						{Kind: KPropose, Client: "client1", IP: src, Addrs: []Addr{g.addrFor(a)},
							Props: []PropData{{Dom: dom, Slot: epoch, Pidx: 1, Parent: fill32(0), State: fill32(1), Body: fill32(1)}}},
						// the same batches with the domain under test NOT in the first position
						{Kind: KAttests, Client: "client1", IP: src, Addrs: []Addr{g.addrFor(b), g.addrFor(a)},
							Atts: []AttData{{Dom: mkDomain(domAttester, 2), BBR: fill32(1), Src: &Checkpoint{epoch + 1, fill32(0)}, Tgt: &Checkpoint{epoch + 2, fill32(1)}},
								{Dom: dom, BBR: fill32(1), Src: &Checkpoint{epoch + 1, fill32(0)}, Tgt: &Checkpoint{epoch + 2, fill32(1)}}}},
						{Kind: KMultisign, Client: "client1", IP: src, Addrs: []Addr{g.addrFor(b), g.addrFor(a)},
							Signs: []SignData{{Dom: mkDomain(domRandao, 1), Data: rng.Bytes(32)}, {Dom: dom, Data: rng.Bytes(32)}}},
					}
					epoch++
					epoch++
					// every other round with a single processor: all items of a batch are then handled by one worker
					oldProcs := 0
					if epoch%2 == 1 {
						oldProcs = runtime.GOMAXPROCS(1)
					}
					for i, op := range ops {
						rec, err := run.execStep(inst, li, i, op)
						if err != nil {
							fmt.Fprintln(os.Stderr, "exec:", err)
							return 2
						}
						monFail = append(monFail, domainMonitor(rec, admin)...)
						if len(samples) < 6 {
							samples = append(samples, describeStep(rec))
						}
					}
					if oldProcs != 0 {
						runtime.GOMAXPROCS(oldProcs)
					}
				}
			}
		}
		inst.Close(ctx)
		files, err := writeInstCases(cf.out, fmt.Sprintf("C05_%d", li), "check_safe", cf.g63, admin, fx, run.steps, 1500)
		if err != nil {
			fmt.Fprintln(os.Stderr, "emit:", err)
			return 2
		}
		allFiles = append(allFiles, files...)
		for i := range run.steps {
			st := &run.steps[i]
			idx[fmt.Sprint(st.ID)] = fmt.Sprintf("admin-ips=%v %s", admin, describeStep(st))
			distinct[fmt.Sprintf("%d|%s|%v", li, st.Op.String(), coqObs(st.Obs))] = true
		}
		total += len(run.steps)
	}
	sum := &Summary{Property: "C05", Seed: cf.seed, Tier: cf.tier, Evaluations: total, Distinct: len(distinct),
		Rule:         "endpoint (generic, multi, attestation, attestations, proposal) x 10 domain-type prefixes (attester, proposer, exit, RANDAO, deposit, selection proof and near misses differing in one of the four bytes) x random 28-byte suffix x admin-IP list {empty, one, many} x source address {absent, listed, listed-second, unlisted}, addressed by name/key/both; distinct = distinct (configuration, request, response)",
		Histories:    len(adminLists),
		Distribution: stats, Samples: samples, MonitorFailures: monFail, CaseFiles: allFiles, CaseIndex: idx}
	if err := writeSummary(cf.out, sum); err != nil {
		return 2
	}
	return 0
}

// domainMonitor judges C05 itself on one observed step.
func domainMonitor(rec *StepRec, admin []string) []string {
	var out []string
	isAdmin := false
	for _, a := range admin {
		if a == rec.Op.IP && rec.Op.IP != "" {
			isAdmin = true
		}
	}
	for i, o := range rec.Obs {
		if o.SigLen == 0 {
			continue
		}
		switch rec.Op.Kind {
		case KSign, KMultisign:
			p := head(rec.Op.Signs[i].Dom, 4)
			if bytes.Equal(p, domAttester) || bytes.Equal(p, domProposer) {
				out = append(out, fmt.Sprintf("generic endpoint signed under slashable domain type %x :: %s", p, describeStep(rec)))
			}
			if bytes.Equal(p, domExit) && !isAdmin {
				out = append(out, fmt.Sprintf("voluntary-exit domain signed for source %q not on the admin list %v :: %s", rec.Op.IP, admin, describeStep(rec)))
			}
		case KAttest, KAttests:
			if p := head(rec.Op.Atts[i].Dom, 4); !bytes.Equal(p, domAttester) {
				out = append(out, fmt.Sprintf("attestation endpoint signed under domain type %x :: %s", p, describeStep(rec)))
			}
		case KPropose:
			if p := head(rec.Op.Props[i].Dom, 4); !bytes.Equal(p, domProposer) {
				out = append(out, fmt.Sprintf("proposal endpoint signed under domain type %x :: %s", p, describeStep(rec)))
			}
		}
	}
	// a refused single attestation / proposal under a foreign domain type must not move the store
	if len(rec.Obs) == 1 && rec.Obs[0].SigLen == 0 {
		foreign := false
		switch rec.Op.Kind {
		case KAttest:
			foreign = !bytes.Equal(head(rec.Op.Atts[0].Dom, 4), domAttester)
		case KPropose:
			foreign = !bytes.Equal(head(rec.Op.Props[0].Dom, 4), domProposer)
		}
		if foreign && fmtStore(rec.Pre) != fmtStore(rec.Post) {
			out = append(out, fmt.Sprintf("refused wrong-domain request changed the protection store :: %s", describeStep(rec)))
		}
	}
	return out
}
