(* The on-disk record format of rules/standard (signBeaconAttestationState / signBeaconProposalState
   Encode and Decode): version byte 0x01 followed by little-endian int64 fields; any other first
   byte is handed to the legacy gob decoder, an oracle argument here. *)
From DV Require Export Model.Rules.
Local Open Scope Z_scope.

Fixpoint le_bytes (n : nat) (x : Z) : bytes :=
  match n with O => [] | S n' => Z.to_N (x mod 256) :: le_bytes n' (x / 256) end.
Fixpoint le_val (b : bytes) : Z :=
  match b with [] => 0 | x :: r => Z.of_N x + 256 * le_val r end.

Definition encode_att (a : astate) : bytes :=
  1%N :: le_bytes 8 (to_uint64 (a_src a)) ++ le_bytes 8 (to_uint64 (a_tgt a)).
Definition encode_prop (s : Z) : bytes := 1%N :: le_bytes 8 (to_uint64 s).

Definition decode_att (gob : bytes -> option astate) (b : bytes) : option astate :=
  match b with
  | [] => None
  | 1%N :: r => if (List.length r =? 16)%nat
                then Some {| a_src := to_int64 (le_val (firstn 8 r)); a_tgt := to_int64 (le_val (skipn 8 r)) |}
                else None
  | _ => gob b
  end.
Definition decode_prop (gob : bytes -> option Z) (b : bytes) : option Z :=
  match b with
  | [] => None
  | 1%N :: r => if (List.length r =? 8)%nat then Some (to_int64 (le_val r)) else None
  | _ => gob b
  end.
