(* C17: the one-per-account lifecycle of key-generation sessions. *)
From DV Require Import Model.Session.
From Coq Require Import Lia.

(* ---- the table is a map: at most one entry per name ---- *)

Definition keys_unique (l : list (string * sess)) : Prop := NoDup (map fst l).

Lemma sremove_not_in a l : ~ In a (map fst (sremove a l)).
Proof.
  induction l as [|[a' s] l IH]; cbn; auto. destruct (String.eqb_spec a a'); auto.
  cbn. intros [E|H]; [congruence|contradiction].
Qed.
Lemma sremove_subset a b l : In b (map fst (sremove a l)) -> In b (map fst l).
Proof.
  induction l as [|[a' s] l IH]; cbn; auto. destruct (String.eqb_spec a a'); cbn; intuition.
Qed.
Lemma sremove_unique a l : keys_unique l -> keys_unique (sremove a l).
Proof.
  unfold keys_unique. induction l as [|[a' s] l IH]; cbn; auto. intros ND. inversion ND; subst.
  destruct (String.eqb_spec a a'); auto. cbn. constructor; auto. intros H. apply H1. eapply sremove_subset; eauto.
Qed.
Lemma sput_unique a s l : keys_unique l -> keys_unique (sput a s l).
Proof. intros H. unfold sput, keys_unique. cbn. constructor; [apply sremove_not_in|now apply sremove_unique]. Qed.

Lemma sfind_sremove a b l : sfind a (sremove b l) = if String.eqb a b then None else sfind a l.
Proof.
  induction l as [|[a' s] l IH]; cbn; [now destruct (String.eqb a b)|].
  destruct (String.eqb_spec b a') as [->|Hb]; cbn.
  - rewrite IH. destruct (String.eqb_spec a a'); auto.
  - rewrite IH. destruct (String.eqb_spec a a') as [->|Ha]; auto.
    destruct (String.eqb_spec a' b); [congruence|reflexivity].
Qed.
Lemma sfind_sput a b s l : sfind a (sput b s l) = if String.eqb a b then Some s else sfind a l.
Proof.
  unfold sput. cbn. destruct (String.eqb_spec a b) as [->|H]; auto.
  rewrite sfind_sremove. destruct (String.eqb_spec a b); [congruence|reflexivity].
Qed.

Lemma get_generation_unique p a : keys_unique (p_sessions p) -> keys_unique (p_sessions (snd (get_generation p a))).
Proof.
  intros H. unfold get_generation. destruct (sfind a (p_sessions p)); auto.
  destruct (_ <? _); cbn; auto. now apply sremove_unique.
Qed.

Lemma sstep_unique p e : keys_unique (p_sessions p) -> keys_unique (p_sessions (snd (sstep_ev p e))).
Proof.
  intros H. pose proof (fun a => get_generation_unique p a H) as G.
  destruct e; cbn [sstep_ev]; try (specialize (G a); destruct (get_generation p a) as [[s|] p1]; cbn [snd] in *);
    repeat match goal with |- context [if ?b then _ else _] => destruct b end; cbn; auto;
    try (apply sput_unique; auto); try (apply sremove_unique; auto).
Qed.

Theorem one_session_per_name h : forall p, keys_unique (p_sessions p) -> keys_unique (p_sessions (fst (srun p h))).
Proof.
  induction h as [|e h IH]; intros p H; cbn; auto.
  pose proof (sstep_unique p e H) as H1. destruct (sstep_ev p e) as [x p1]. cbn in H1.
  specialize (IH p1 H1). destruct (srun p1 h). exact IH.
Qed.

(* ---- prepare while active is refused and leaves the session intact ---- *)

Lemma active_get p a : active p a = true -> exists s, get_generation p a = (Some s, p).
Proof.
  unfold active, get_generation. destruct (sfind a (p_sessions p)) as [s|]; [|discriminate].
  destruct (_ <? _); [discriminate|]. eauto.
Qed.
Lemma inactive_get p a : active p a = false -> fst (get_generation p a) = None.
Proof. unfold active. destruct (fst (get_generation p a)); [discriminate|auto]. Qed.

Theorem prepare_while_active_refused p a thr parts :
  active p a = true -> sstep_ev p (SPrepare a thr parts) = (EInProgress, p).
Proof. intros H. destruct (active_get p a H) as (s & E). cbn. now rewrite E. Qed.

(* ---- the other four are refused without an active session, and change nothing but the expired entry ---- *)

Theorem refused_without_session p a :
  active p a = false ->
  (forall sw ok, fst (sstep_ev p (SExecute a sw ok)) = ENotInProgress) /\
  (forall sender valid, fst (sstep_ev p (SContribute a sender valid)) = ENotFound) /\
  (forall ok, fst (sstep_ev p (SCommit a ok)) = ENotInProgress) /\
  fst (sstep_ev p (SAbort a)) = ENotInProgress /\
  (forall e, (exists sw ok, e = SExecute a sw ok) \/ (exists s v, e = SContribute a s v) \/ (exists ok, e = SCommit a ok) \/ e = SAbort a ->
     p_accounts (snd (sstep_ev p e)) = p_accounts p /\ active (snd (sstep_ev p e)) a = false).
Proof.
  intros H. pose proof (inactive_get p a H) as G.
  assert (Hp1 : active (snd (get_generation p a)) a = false /\ p_accounts (snd (get_generation p a)) = p_accounts p).
  { unfold get_generation in *. destruct (sfind a (p_sessions p)) as [s|] eqn:E.
    - destruct (p_timeout p <? p_now p - s_started s) eqn:T; cbn [fst snd] in *; [|discriminate].
      split; [|reflexivity]. unfold active, get_generation. cbn [p_sessions with_sessions].
      now rewrite sfind_sremove, String.eqb_refl.
    - cbn [snd]. split; [exact H|reflexivity]. }
  destruct (get_generation p a) as [g p1] eqn:Eg. cbn in G, Hp1. subst g.
  repeat split; intros; cbn; rewrite ?Eg; auto.
  - destruct H0 as [(sw & ok & ->)|[(s & v & ->)|[(ok & ->)| ->]]]; cbn; rewrite Eg; cbn; tauto.
  - destruct H0 as [(sw & ok & ->)|[(s & v & ->)|[(ok & ->)| ->]]]; cbn; rewrite Eg; cbn; tauto.
Qed.

(* ---- commit succeeds only with a contribution from every listed participant ---- *)

Definition contributions_from_listed (s : sess) : Prop :=
  NoDup (s_contributed s) /\ NoDup (s_participants s) /\ incl (s_contributed s) (s_participants s).

Lemma full_count_all s : contributions_from_listed s ->
  List.length (s_contributed s) = List.length (s_participants s) -> forall i, In i (s_participants s) -> In i (s_contributed s).
Proof.
  intros (N1 & N2 & Hincl) Hlen i Hi.
  assert (Hinc2 : incl (s_participants s) (s_contributed s)).
  { apply NoDup_length_incl; auto. lia. }
  now apply Hinc2.
Qed.

Theorem commit_needs_everyone p a ok s :
  get_generation p a = (Some s, p) -> contributions_from_listed s ->
  fst (sstep_ev p (SCommit a ok)) = EOk ->
  (forall i, In i (s_participants s) -> In i (s_contributed s)) /\ ok = true.
Proof.
  intros Eg Hc. cbn. rewrite Eg.
  destruct (Nat.eqb_spec (List.length (s_contributed s)) (List.length (s_participants s))) as [E|E]; cbn; [|discriminate].
  destruct ok; [|discriminate]. intros _. split; auto. now apply full_count_all.
Qed.

(* ---- after a successful commit, an abort, or the timeout the session is gone and a new one may start ---- *)

Theorem gone_after_commit_or_abort p a :
  (forall ok, fst (sstep_ev p (SCommit a ok)) = EOk -> active (snd (sstep_ev p (SCommit a ok))) a = false /\
                                                     In a (p_accounts (snd (sstep_ev p (SCommit a ok))))) /\
  (fst (sstep_ev p (SAbort a)) = EOk -> active (snd (sstep_ev p (SAbort a))) a = false).
Proof.
  split.
  - intros ok. cbn. destruct (get_generation p a) as [[s|] p1] eqn:Eg; [|discriminate].
    destruct (negb _); [discriminate|]. destruct ok; [|discriminate]. intros _. cbn. split; [|now left].
    unfold active, get_generation. cbn. now rewrite sfind_sremove, String.eqb_refl.
  - cbn. destruct (get_generation p a) as [[s|] p1] eqn:Eg; [|discriminate]. intros _. cbn.
    unfold active, get_generation. cbn. now rewrite sfind_sremove, String.eqb_refl.
Qed.

Theorem expired_is_gone p a s dt :
  sfind a (p_sessions p) = Some s -> p_timeout p < p_now p + dt - s_started s ->
  active (snd (sstep_ev p (SAdvance dt))) a = false.
Proof.
  intros E T. apply Nat.ltb_lt in T. unfold sstep_ev, active, get_generation.
  cbn [snd fst p_sessions p_now p_timeout]. rewrite E, T. reflexivity.
Qed.

Theorem new_prepare_after_gone p a thr parts :
  active p a = false -> (0 < thr)%nat ->
  fst (sstep_ev p (SPrepare a thr parts)) = EOk /\ active (snd (sstep_ev p (SPrepare a thr parts))) a = true.
Proof.
  intros H Ht. pose proof (inactive_get p a H) as G. cbn [sstep_ev].
  destruct (get_generation p a) as [g p1] eqn:Eg. cbn in G. subst g.
  destruct (Nat.eqb_spec thr 0); [lia|]. cbn. split; auto.
  unfold active, get_generation. cbn [p_sessions with_sessions p_now p_timeout].
  rewrite sfind_sput, String.eqb_refl. cbn [s_started].
  replace (p_now p1 - p_now p1) with 0 by lia. destruct (p_timeout p1 <? 0) eqn:E; [apply Nat.ltb_lt in E; lia|reflexivity].
Qed.

(* other names are never affected by an event for a *)
Lemma other_name_untouched p e a b :
  a <> b ->
  (e = SAbort a \/ (exists t ps, e = SPrepare a t ps) \/ (exists sw ok, e = SExecute a sw ok) \/
   (exists s v, e = SContribute a s v) \/ (exists ok, e = SCommit a ok)) ->
  sfind b (p_sessions (snd (sstep_ev p e))) = sfind b (p_sessions p).
Proof.
  intros Hab He.
  assert (Hg : sfind b (p_sessions (snd (get_generation p a))) = sfind b (p_sessions p)).
  { unfold get_generation. destruct (sfind a (p_sessions p)); auto. destruct (_ <? _); cbn; auto.
    rewrite sfind_sremove. destruct (String.eqb_spec b a); [congruence|auto]. }
  assert (Hne : String.eqb b a = false) by (destruct (String.eqb_spec b a); [congruence|auto]).
  destruct He as [->|[(t & ps & ->)|[(sw & ok & ->)|[(s & v & ->)|(ok & ->)]]]]; cbn [sstep_ev];
    destruct (get_generation p a) as [[s0|] p1]; cbn [snd] in *;
    repeat match goal with |- context [if ?b then _ else _] => destruct b end; cbn; auto;
    rewrite ?sfind_sput, ?sfind_sremove, ?Hne; auto.
Qed.
