(* SHA-256 over Coq's primitive 63-bit integers (words masked to 32 bits).  Executable only: no
   theorem depends on a property of SHA-256; it is pinned by the NIST vectors below and checked
   differentially against crypto/sha256 by the harness. *)
From Coq Require Import Uint63 ZArith NArith List.
Import ListNotations.
Local Open Scope uint63_scope.

Definition mask32 : int := 0xFFFFFFFF.
Definition add32 (a b : int) : int := (a + b) land mask32.
Definition rotr (n : int) (x : int) : int := (x >> n) lor ((x << (32 - n)) land mask32).
Definition not32 (x : int) : int := x lxor mask32.
Definition ch (x y z : int) : int := (x land y) lxor ((not32 x) land z).
Definition maj (x y z : int) : int := (x land y) lxor (x land z) lxor (y land z).
Definition bsig0 (x : int) : int := rotr 2 x lxor rotr 13 x lxor rotr 22 x.
Definition bsig1 (x : int) : int := rotr 6 x lxor rotr 11 x lxor rotr 25 x.
Definition ssig0 (x : int) : int := rotr 7 x lxor rotr 18 x lxor (x >> 3).
Definition ssig1 (x : int) : int := rotr 17 x lxor rotr 19 x lxor (x >> 10).

Definition K : list int :=
 [0x428a2f98; 0x71374491; 0xb5c0fbcf; 0xe9b5dba5; 0x3956c25b; 0x59f111f1; 0x923f82a4; 0xab1c5ed5;
  0xd807aa98; 0x12835b01; 0x243185be; 0x550c7dc3; 0x72be5d74; 0x80deb1fe; 0x9bdc06a7; 0xc19bf174;
  0xe49b69c1; 0xefbe4786; 0x0fc19dc6; 0x240ca1cc; 0x2de92c6f; 0x4a7484aa; 0x5cb0a9dc; 0x76f988da;
  0x983e5152; 0xa831c66d; 0xb00327c8; 0xbf597fc7; 0xc6e00bf3; 0xd5a79147; 0x06ca6351; 0x14292967;
  0x27b70a85; 0x2e1b2138; 0x4d2c6dfc; 0x53380d13; 0x650a7354; 0x766a0abb; 0x81c2c92e; 0x92722c85;
  0xa2bfe8a1; 0xa81a664b; 0xc24b8b70; 0xc76c51a3; 0xd192e819; 0xd6990624; 0xf40e3585; 0x106aa070;
  0x19a4c116; 0x1e376c08; 0x2748774c; 0x34b0bcb5; 0x391c0cb3; 0x4ed8aa4a; 0x5b9cca4f; 0x682e6ff3;
  0x748f82ee; 0x78a5636f; 0x84c87814; 0x8cc70208; 0x90befffa; 0xa4506ceb; 0xbef9a3f7; 0xc67178f2].

Definition H0 : list int :=
 [0x6a09e667; 0xbb67ae85; 0x3c6ef372; 0xa54ff53a; 0x510e527f; 0x9b05688c; 0x1f83d9ab; 0x5be0cd19].

(* message schedule: rev_ws holds W[t-1], W[t-2], ... (most recent first) *)
Fixpoint schedule (n : nat) (rev_ws : list int) : list int :=
  match n with
  | O => rev_ws
  | S n' =>
    let w := add32 (add32 (ssig1 (nth 1 rev_ws 0)) (nth 6 rev_ws 0))
                   (add32 (ssig0 (nth 14 rev_ws 0)) (nth 15 rev_ws 0)) in
    schedule n' (w :: rev_ws)
  end.

Record st8 := { sa : int; sb : int; sc : int; sd : int; se : int; sf : int; sg : int; sh : int }.

Definition round (s : st8) (kw : int * int) : st8 :=
  let '(k, w) := kw in
  let t1 := add32 (add32 (add32 (sh s) (bsig1 (se s))) (add32 (ch (se s) (sf s) (sg s)) k)) w in
  let t2 := add32 (bsig0 (sa s)) (maj (sa s) (sb s) (sc s)) in
  {| sa := add32 t1 t2; sb := sa s; sc := sb s; sd := sc s; se := add32 (sd s) t1; sf := se s; sg := sf s; sh := sg s |}.

Definition compress (h : list int) (block : list int) : list int :=      (* block: 16 words *)
  let ws := rev (schedule 48 (rev block)) in
  let s0 := {| sa := nth 0 h 0; sb := nth 1 h 0; sc := nth 2 h 0; sd := nth 3 h 0;
               se := nth 4 h 0; sf := nth 5 h 0; sg := nth 6 h 0; sh := nth 7 h 0 |} in
  let s := fold_left round (combine K ws) s0 in
  [add32 (nth 0 h 0) (sa s); add32 (nth 1 h 0) (sb s); add32 (nth 2 h 0) (sc s); add32 (nth 3 h 0) (sd s);
   add32 (nth 4 h 0) (se s); add32 (nth 5 h 0) (sf s); add32 (nth 6 h 0) (sg s); add32 (nth 7 h 0) (sh s)].

(* bytes <-> words *)
Definition byte_int (b : N) : int := of_Z (Z.of_N b).
Definition int_byte (i : int) : N := Z.to_N (to_Z (i land 0xFF)).

Fixpoint words_of (bs : list N) : list int :=
  match bs with
  | a :: b :: c :: d :: r =>
      ((byte_int a << 24) lor (byte_int b << 16) lor (byte_int c << 8) lor byte_int d) :: words_of r
  | _ => []
  end.
Definition bytes_of_word (w : int) : list N :=
  [int_byte (w >> 24); int_byte (w >> 16); int_byte (w >> 8); int_byte w].

Fixpoint chunks16 (fuel : nat) (ws : list int) : list (list int) :=
  match fuel with
  | O => []
  | S f => match ws with [] => [] | _ => firstn 16 ws :: chunks16 f (skipn 16 ws) end
  end.

(* padding: 0x80, zeros up to 56 mod 64, 64-bit big-endian bit length (lengths below 2^32 bytes) *)
Definition pad (bs : list N) : list N :=
  let len := List.length bs in
  let zeros := ((64 - ((len + 9) mod 64)) mod 64)%nat in
  let bits := (Z.of_nat len * 8)%Z in
  bs ++ [128%N] ++ repeat 0%N zeros ++
  [0%N; 0%N; 0%N; Z.to_N (bits / 4294967296 mod 256)%Z] ++
  [Z.to_N (bits / 16777216 mod 256)%Z; Z.to_N (bits / 65536 mod 256)%Z; Z.to_N (bits / 256 mod 256)%Z; Z.to_N (bits mod 256)%Z].

Definition sha256 (bs : list N) : list N :=
  let ws := words_of (pad bs) in
  let h := fold_left compress (chunks16 (S (List.length ws)) ws) H0 in
  flat_map bytes_of_word h.

(* FIPS 180-4 test vectors *)
Example sha256_abc :
  sha256 [97; 98; 99]%N =
  [0xba;0x78;0x16;0xbf;0x8f;0x01;0xcf;0xea;0x41;0x41;0x40;0xde;0x5d;0xae;0x22;0x23;
   0xb0;0x03;0x61;0xa3;0x96;0x17;0x7a;0x9c;0xb4;0x10;0xff;0x61;0xf2;0x00;0x15;0xad]%N.
Proof. vm_compute. reflexivity. Qed.
Example sha256_empty :
  sha256 [] =
  [0xe3;0xb0;0xc4;0x42;0x98;0xfc;0x1c;0x14;0x9a;0xfb;0xf4;0xc8;0x99;0x6f;0xb9;0x24;
   0x27;0xae;0x41;0xe4;0x64;0x9b;0x93;0x4c;0xa4;0x95;0x99;0x1b;0x78;0x52;0xb8;0x55]%N.
Proof. vm_compute. reflexivity. Qed.
(* two-block message (56 bytes): abcdbcdecdefdefgefghfghighijhijkijkljklmklmnlmnomnopnopq *)
Example sha256_two_blocks :
  sha256 (map (fun c => N.of_nat c)
    [97;98;99;100;98;99;100;101;99;100;101;102;100;101;102;103;101;102;103;104;102;103;104;105;103;104;105;106;
     104;105;106;107;105;106;107;108;106;107;108;109;107;108;109;110;108;109;110;111;109;110;111;112;110;111;112;113]%nat) =
  [0x24;0x8d;0x6a;0x61;0xd2;0x06;0x38;0xb8;0xe5;0xc0;0x26;0x93;0x0c;0x3e;0x60;0x39;
   0xa3;0x3c;0xe4;0x59;0x64;0xff;0x21;0x67;0xf6;0xec;0xed;0xd4;0x19;0xdb;0x06;0xc1]%N.
Proof. vm_compute. reflexivity. Qed.
