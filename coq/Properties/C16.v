(* C16 - key-generation messages are honoured only from peers; shares go to their owner. *)
From DV Require Import Model.Receiver Proofs.DkgProofs Proofs.ReceiverProofs.
Local Open Scope Z_scope.

(* The five receiver handlers act only when sender_id gives a non-zero identifier (each handler's first
   statement; Model/Receiver.v's receive).  (a) sender_id is 0 for the absent name and for every name
   that is not a configured peer's; (b) it is the peer's identifier for a peer's name. *)
Theorem C16_only_peers :
  (forall peers name, (forall i pn, In (i, pn) peers -> Some pn <> name) -> sender_id peers name = 0%N) /\
  (forall peers i nm, NoDup (map snd peers) -> In (i, nm) peers -> sender_id peers (Some nm) = i).
Proof. split; [exact sender_id_unknown|exact sender_id_peer]. Qed.
Print Assumptions C16_only_peers.

(* (c) The reply to a contribution carries the evaluation of the replier's polynomial at the
   AUTHENTICATED SENDER's identifier - the share dealt to the sender - and the replier's vector,
   whatever share and vector the sender supplied. *)
Theorem C16_share_goes_to_its_owner :
  forall c n acct sender share vvec n' reply g,
    gfind acct (nd_gens n) = Some g -> on_contribute c n acct sender share vvec = DOk (n', reply) ->
    reply = (horner (g_poly g) (idz sender), g_poly g).
Proof. exact on_contribute_reply. Qed.
Print Assumptions C16_share_goes_to_its_owner.

(* (d) A message (any of the five) from a caller that is not a peer is refused and changes nothing;
   from a peer it is handled by the session table with the peer's identifier as the sender. *)
Theorem C16_stranger_refused :
  forall peers p name m, (forall i pn, In (i, pn) peers -> Some pn <> name) -> receive peers p name m = (None, p).
Proof. exact receive_stranger. Qed.
Print Assumptions C16_stranger_refused.

Theorem C16_peer_honoured :
  forall peers p i nm m, NoDup (map snd peers) -> In (i, nm) peers -> i <> 0%N ->
    receive peers p (Some nm) m = (Some (fst (sstep_ev p (to_event i m))), snd (sstep_ev p (to_event i m))).
Proof. exact receive_peer. Qed.

(* (e) Over every history of messages from any mix of callers, in every session state: deleting all
   messages of non-peers changes neither the final table and accounts nor any reply to a peer. *)
Theorem C16_strangers_change_nothing :
  forall peers h p,
    fst (hrun peers p h) = fst (hrun peers p (filter (from_peer peers) h)) /\
    filter (fun x => match x with Some _ => true | None => false end) (snd (hrun peers p h))
    = snd (hrun peers p (filter (from_peer peers) h)).
Proof. exact strangers_change_nothing. Qed.
Print Assumptions C16_strangers_change_nothing.

Example C16_example :
  let peers := [(1%N, "signer-test01"); (2%N, "signer-test02")]%string in
  let p := {| p_id := 1; p_timeout := 100; p_now := 0; p_sessions := []; p_accounts := [] |} in
  snd (hrun peers p [HRecv (Some "signer-test02") (RPrepare "W/a" 2 [1; 2]%N); HRecv (Some "client1") (RAbort "W/a");
                     HRecv None (RCommit "W/a" true); HRecv (Some "signer-test02") (RContribute "W/a" true);
                     HRecv (Some "signer-test02") (RCommit "W/a" true)]%string)
  = [Some EOk; None; None; Some EOk; Some EOk].
Proof. vm_compute. reflexivity. Qed.
