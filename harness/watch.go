package main

import (
	"fmt"
	"os"
	"sync"
	"time"
)

// The request being served is written down before it is handed to the instance (last_request.txt in the output
// directory) and crossed out when it has been answered.  If the harness process dies, or a request is not answered
// within the limit, bin/check reports the written-down request as the failing input.
var watch struct {
	mu    sync.Mutex
	path  string
	text  string
	since time.Time
	limit time.Duration
	once  sync.Once
}

func watchInit(outDir string) {
	watch.mu.Lock()
	watch.path = outDir + "/last_request.txt"
	watch.limit = 150 * time.Second
	watch.mu.Unlock()
	_ = os.Remove(outDir + "/last_request.txt")
	watch.once.Do(func() {
		go func() {
			for {
				time.Sleep(time.Second)
				watch.mu.Lock()
				text, since, limit := watch.text, watch.since, watch.limit
				watch.mu.Unlock()
				if text != "" && time.Since(since) > limit {
					fmt.Fprintf(os.Stderr, "no answer within %v to: %s\n", limit, text)
					os.Exit(124)
				}
			}
		}()
	})
}

func noteRequest(format string, args ...any) {
	text := fmt.Sprintf(format, args...)
	watch.mu.Lock()
	defer watch.mu.Unlock()
	if watch.path == "" {
		return
	}
	watch.text, watch.since = text, time.Now()
	_ = os.WriteFile(watch.path, []byte(text), 0o644)
}

func requestDone() {
	watch.mu.Lock()
	defer watch.mu.Unlock()
	if watch.path == "" {
		return
	}
	watch.text = ""
	_ = os.Remove(watch.path)
}
