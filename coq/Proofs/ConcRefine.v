(* The sequential semantics that C04's serializability theorem refers to IS the ruler / rules model that
   C01, C02 and C05 reason about: one seq_step of the lock-protocol model on the abstraction of a
   protection store gives the verdicts of ruler_atts / ruler_prop / ruler_signs (fault-free) and the
   abstraction of their resulting store.  Hence every reachable completed world of the concurrent
   protocol is a run of the sequential rules model in commit order. *)
From DV Require Import Model.ConcRules Proofs.AssocFacts Proofs.RulesProofs Proofs.RulerProofs Proofs.ConcProofs Proofs.ConcRulesProofs.
From Coq Require Import Lia.
Local Open Scope Z_scope.

Definition abs (cs : Conc.store cval) (st : Rules.store) : Prop :=
  forall k, cs (nkey k) = (view_att st k, view_prop st k).

Lemma nkey_inj k k' : nkey k = nkey k' -> k = k'.
Proof. unfold nkey. apply N2Nat.inj. Qed.
Lemma nkey_eqb k k' : Nat.eqb (nkey k') (nkey k) = N.eqb k' k.
Proof.
  destruct (N.eqb_spec k' k) as [->|H]; [apply Nat.eqb_refl|]. apply Nat.eqb_neq. intros E. apply H. now apply nkey_inj.
Qed.

Lemma abs_put_att cs st k a : abs cs st -> abs (upd cs (nkey k) (a, view_prop st k)) (put_att st k a).
Proof.
  intros A k'. unfold upd. rewrite nkey_eqb, view_att_put_att, view_prop_put_att.
  rewrite (N.eqb_sym k k'). destruct (N.eqb_spec k' k) as [->|H]; [reflexivity|apply A].
Qed.
Lemma abs_put_prop cs st k z : abs cs st -> abs (upd cs (nkey k) (view_att st k, z)) (put_prop st k z).
Proof.
  intros A k'. unfold upd. rewrite nkey_eqb, view_prop_put_prop, view_att_put_prop.
  rewrite (N.eqb_sym k k'). destruct (N.eqb_spec k' k) as [->|H]; [reflexivity|apply A].
Qed.
(* writing back what is there changes nothing *)
Lemma abs_same cs st k : abs cs st -> abs (upd cs (nkey k) (view_att st k, view_prop st k)) st.
Proof.
  intros A k'. unfold upd. rewrite nkey_eqb. destruct (N.eqb_spec k' k) as [->|H]; [reflexivity|apply A].
Qed.

Lemma rd_snapshot {V} (s : Conc.store V) ks k : In k ks -> rd (snapshot s ks) k = Some (s k).
Proof.
  induction ks as [|k0 ks IH]; cbn; [contradiction|]. intros [->|H]; [now rewrite Nat.eqb_refl|].
  destruct (Nat.eqb_spec k k0) as [->|_]; [reflexivity|auto].
Qed.

Lemma rdv_snapshot cs st (ks : list N) k : abs cs st -> In k ks ->
  rdv (snapshot cs (map nkey ks)) k = (view_att st k, view_prop st k).
Proof.
  intros A H. unfold rdv. rewrite rd_snapshot by (apply in_map; exact H). apply A.
Qed.

Lemma rdv_snapshot_rs cs st (rs : list areq) x : abs cs st -> In x rs ->
  rdv (snapshot cs (map (fun x0 => nkey (r_key x0)) rs)) (r_key x) = (view_att st (r_key x), view_prop st (r_key x)).
Proof.
  intros A H. unfold rdv. rewrite rd_snapshot by (apply (in_map (fun x0 => nkey (r_key x0))); exact H). apply A.
Qed.

Lemma rdv_snapshot1 cs st k : abs cs st -> rdv (snapshot cs [nkey k]) k = (view_att st k, view_prop st k).
Proof. intros A. unfold rdv. cbn. rewrite Nat.eqb_refl. apply A. Qed.

(* the batch write-back, as a fold over (key, new record) pairs *)
Lemma abs_store_all l : forall cs st, abs cs st ->
  abs (apply cs (map (fun ka => (nkey (fst ka), (snd ka, view_prop st (fst ka)))) l)) (store_all st l).
Proof.
  unfold store_all. induction l as [|[k a] l IH]; intros cs st A; cbn [map apply fold_left fst snd]; [exact A|].
  specialize (IH _ _ (abs_put_att cs st k a A)).
  erewrite map_ext; [exact IH|]. intros [k1 a1]. cbn. now rewrite view_prop_put_att.
Qed.

Lemma combine_map_r {A B} (f : A -> B) l : combine l (map f l) = map (fun x => (x, f x)) l.
Proof. induction l as [|x l IH]; cbn; [reflexivity|now rewrite IH]. Qed.
Lemma combine_map_map {A B C} (f : A -> B) (g : A -> C) l : combine (map f l) (map g l) = map (fun x => (f x, g x)) l.
Proof. induction l as [|x l IH]; cbn; [reflexivity|now rewrite IH]. Qed.

Lemma norm_att c dom a s t : norm (fst (att_checks c dom a s t)) = fst (att_checks c dom a s t).
Proof. destruct (att_checks_result c dom a s t) as [E|E]; rewrite E; reflexivity. Qed.

Lemma lockable_first_dup ks : ks <> [] -> lockable ks = match first_dup ks with None => true | Some _ => false end.
Proof. destruct ks; [contradiction|reflexivity]. Qed.

Lemma reject_dup ks i : first_dup ks = Some i -> reject ks = fail_at (List.length ks) i.
Proof. unfold reject. destruct ks; [discriminate|]. now intros ->. Qed.

Theorem seq_refines_ruler c cs st r :
  abs cs st ->
  match r with
  | QAtts rs =>
      snd (seq_step ckeys (cdecide c) cs r) = fst (ruler_atts c st true no_fault rs) /\
      abs (fst (seq_step ckeys (cdecide c) cs r)) (snd (ruler_atts c st true no_fault rs))
  | QProp p =>
      snd (seq_step ckeys (cdecide c) cs r) = fst (ruler_prop c st true no_fault p) /\
      abs (fst (seq_step ckeys (cdecide c) cs r)) (snd (ruler_prop c st true no_fault p))
  | QSigns ip ds =>
      snd (seq_step ckeys (cdecide c) cs r) = ruler_signs c true ip ds /\
      abs (fst (seq_step ckeys (cdecide c) cs r)) st
  end.
Proof.
  intros A. destruct r as [rs|p|ip ds]; unfold seq_step; cbn [fst snd].
  - (* attestations *)
    destruct rs as [|r0 [|r1 rest]].
    + cbn. split; [reflexivity|exact A].
    + (* a single entry: the single-attestation rule *)
      cbn [ckeys cdecide map lockable first_dup first_dup_from existsb].
      cbn [combine fst snd ruler_atts]. unfold on_att. cbn [fetch_fails no_fault f_fetch existsb f_store].
      rewrite (rdv_snapshot1 cs st (r_key r0) A). cbn [fst snd].
      destruct (att_checks c (r_dom r0) (view_att st (r_key r0)) (r_src r0) (r_tgt r0)) as [res a'] eqn:E.
      pose proof (att_checks_result c (r_dom r0) (view_att st (r_key r0)) (r_src r0) (r_tgt r0)) as Hres. rewrite E in Hres. cbn in Hres.
      cbn [map apply fst snd]. rewrite (rdv_snapshot1 cs st (r_key r0) A). cbn [fst snd].
      destruct Hres as [-> | ->]; cbn [norm fst snd].
      * split; [reflexivity|]. now apply abs_put_att.
      * split; [reflexivity|]. rewrite (att_checks_refused _ _ _ _ _ _ _ E) by discriminate. now apply abs_same.
    + (* two or more entries *)
      set (rs := r0 :: r1 :: rest) in *.
      assert (Hne : map r_key rs <> []) by discriminate.
      unfold ruler_atts. fold rs. change (match rs with [] => _ | [r] => _ | _ => ?X end) with X.
      cbn [ckeys cdecide]. rewrite (lockable_first_dup _ Hne).
      destruct (first_dup (map r_key rs)) as [i|] eqn:Ed.
      * cbn [snapshot map apply fst snd]. rewrite (reject_dup _ _ Ed), map_length. split; [reflexivity|exact A].
      * unfold on_atts. cbn [no_fault f_fetch f_store fetch_fails].
        assert (Hf : existsb (fetch_fails no_fault) (seq 0 (List.length rs)) = false).
        { apply not_true_is_false. intros Hx. apply existsb_exists in Hx. destruct Hx as (x & _ & Hx). discriminate. }
        rewrite Hf. cbn [orb]. change ((List.length rs =? 0)%nat) with false. cbn [fst snd].
        (* the values read are the store's *)
        assert (Hout : map (fun x => att_checks c (r_dom x) (fst (rdv (snapshot cs (map (fun x0 => nkey (r_key x0)) rs)) (r_key x))) (r_src x) (r_tgt x)) rs
                     = map (fun r => att_checks c (r_dom r) (view_att st (r_key r)) (r_src r) (r_tgt r)) rs).
        { apply map_ext_in. intros x Hx. rewrite (rdv_snapshot_rs cs st rs x A Hx). reflexivity. }
        rewrite Hout. split; [reflexivity|].
        rewrite combine_map_r, map_map. cbn [fst snd].
        rewrite (map_map _ snd), combine_map_map.
        set (F := fun r => att_checks c (r_dom r) (view_att st (r_key r)) (r_src r) (r_tgt r)).
        pose proof (abs_store_all (map (fun r => (r_key r, snd (F r))) rs) cs st A) as H.
        rewrite map_map in H. cbn [fst snd] in H.
        erewrite map_ext_in; [exact H|]. intros x Hx. cbn [fst snd].
        rewrite (rdv_snapshot_rs cs st rs x A Hx). reflexivity.
  - (* proposal *)
    cbn [ckeys cdecide map]. unfold ruler_prop, on_prop, prop_checks. cbn [fetch_fails no_fault f_fetch existsb f_store].
    rewrite (rdv_snapshot1 cs st (p_key p) A). cbn [fst snd].
    destruct (negb (bytes_eqb (prefix4 (p_dom p)) dom_proposer)); cbn [fst snd apply norm]; [split; [reflexivity|now apply abs_same]|].
    destruct (guard63 c && (two63 <=? p_slot p)); cbn [fst snd apply norm]; [split; [reflexivity|now apply abs_same]|].
    destruct ((0 <=? view_prop st (p_key p)) && (p_slot p <=? to_uint64 (view_prop st (p_key p)))); cbn [fst snd apply norm];
      [split; [reflexivity|now apply abs_same]|].
    split; [reflexivity|now apply abs_put_prop].
  - (* generic signing: no state *)
    cbn [ckeys cdecide]. destruct (lockable (map fst ds)); cbn [fst snd apply]; split; auto.
Qed.

(* the ruler model on the same request type, one request at a time *)
Definition rstep (c : rcfg) (st : Rules.store) (r : creq) : Rules.store * list rres :=
  match r with
  | QAtts rs => let '(out, st') := ruler_atts c st true no_fault rs in (st', out)
  | QProp p => let '(out, st') := ruler_prop c st true no_fault p in (st', out)
  | QSigns ip ds => (st, ruler_signs c true ip ds)
  end.
Fixpoint rrun (c : rcfg) (st : Rules.store) (rs : list creq) : Rules.store * list (list rres) :=
  match rs with
  | [] => (st, [])
  | r :: rest => let '(s1, v) := rstep c st r in let '(s2, vs) := rrun c s1 rest in (s2, v :: vs)
  end.

Lemma seq_step_rstep c cs st r : abs cs st ->
  snd (seq_step ckeys (cdecide c) cs r) = snd (rstep c st r) /\
  abs (fst (seq_step ckeys (cdecide c) cs r)) (fst (rstep c st r)).
Proof.
  intros A. pose proof (seq_refines_ruler c cs st r A) as H. destruct r as [rs|p|ip ds]; cbn [rstep].
  - destruct (ruler_atts c st true no_fault rs). exact H.
  - destruct (ruler_prop c st true no_fault p). exact H.
  - exact H.
Qed.

Theorem ser_refines_rrun c : forall rs cs st, abs cs st ->
  snd (cser c cs rs) = snd (rrun c st rs) /\ abs (fst (cser c cs rs)) (fst (rrun c st rs)).
Proof.
  unfold cser. induction rs as [|r rs IH]; intros cs st A; cbn [ser rrun]; [split; [reflexivity|exact A]|].
  destruct (seq_step_rstep c cs st r A) as [H1 H2].
  destruct (seq_step ckeys (cdecide c) cs r) as [cs1 v]. destruct (rstep c st r) as [st1 v']. cbn [fst snd] in *. subst v'.
  destruct (IH cs1 st1 H2) as [I1 I2].
  destruct (ser ckeys (cdecide c) cs1 rs) as [cs2 vs]. destruct (rrun c st1 rs) as [st2 vs']. cbn [fst snd] in *. subst vs'.
  split; [reflexivity|exact I2].
Qed.

(* Every completed concurrent execution of the lock protocol IS a run of the sequential ruler / rules
   model - the model C01, C02 and C05 are proved about - in commit order: same verdicts, same records. *)
Theorem concurrent_is_sequential_rules c cs0 st0 rs (w : cworld) :
  abs cs0 st0 -> creach c cs0 rs w -> all_finished _ _ _ w ->
  let order := rev (w_log w) in
  map (log_out _ _) order = snd (rrun c st0 (map (log_req _ _) order)) /\
  abs (w_store w) (fst (rrun c st0 (map (log_req _ _) order))).
Proof.
  intros A R F order. destruct (conc_serializable c cs0 rs w R F) as [S _]. fold order in S.
  destruct (ser_refines_rrun c (map (log_req _ _) order) cs0 st0 A) as [H1 H2]. rewrite S in H1, H2. cbn [fst snd] in *.
  split; assumption.
Qed.
